#include "build.hpp"

namespace sim {

var_t make_var(variable_factory_t &vfac, const VarDecl &d) {
  auto n = vfac[d.name];
  switch (d.ty) {
  case Ty::INT:
    return var_t(n, crab::INT_TYPE, d.width);
  case Ty::BOOL:
    return var_t(n, crab::BOOL_TYPE, 1);
  case Ty::REF:
    return var_t(n, crab::REF_TYPE);
  case Ty::ARR_INT:
    return var_t(n, crab::ARR_INT_TYPE);
  case Ty::ARR_BOOL:
    return var_t(n, crab::ARR_BOOL_TYPE);
  case Ty::RGN_INT:
    return var_t(n, crab::REG_INT_TYPE, d.width);
  case Ty::RGN_BOOL:
    return var_t(n, crab::REG_BOOL_TYPE, 1);
  case Ty::RGN_REF:
    return var_t(n, crab::REG_REF_TYPE);
  }
  return var_t(n, crab::INT_TYPE, 32);
}

static const var_t &lookup(const std::map<std::string, var_t> &vars, const std::string &n) {
  auto it = vars.find(n);
  if (it == vars.end())
    throw std::runtime_error("simir: undeclared variable " + n);
  return it->second;
}

lin_exp_t to_lin_exp(const LinExp &e, const std::map<std::string, var_t> &vars) {
  lin_exp_t r(to_num(e.cst));
  for (auto &t : e.terms)
    r = r + lin_exp_t(lookup(vars, t.first)) * to_num(t.second);
  return r;
}

lin_cst_t to_lin_cst(const LinCst &c, const std::map<std::string, var_t> &vars) {
  lin_exp_t e = to_lin_exp(c.e, vars);
  switch (c.kind) {
  case LinCst::LEQ:
    return lin_cst_t(e, lin_cst_t::INEQUALITY);
  case LinCst::LT:
    return lin_cst_t(e, lin_cst_t::STRICT_INEQUALITY);
  case LinCst::EQ:
    return lin_cst_t(e, lin_cst_t::EQUALITY);
  case LinCst::NEQ:
    return lin_cst_t(e, lin_cst_t::DISEQUATION);
  }
  return lin_cst_t::get_true();
}

ref_cst_t to_ref_cst(const std::string &k, const std::vector<std::string> &v, size_t from,
                     const mpz_class &off, const std::map<std::string, var_t> &vars) {
  const var_t &a = lookup(vars, v.at(from));
  if (k == "null")
    return ref_cst_t::mk_null(a);
  if (k == "notnull")
    return ref_cst_t::mk_not_null(a);
  const var_t &b = lookup(vars, v.at(from + 1));
  number_t o = to_num(off);
  if (k == "eq")
    return ref_cst_t::mk_eq(a, b, o);
  if (k == "neq")
    return ref_cst_t::mk_not_eq(a, b, o);
  if (k == "lt")
    return ref_cst_t::mk_lt(a, b, o);
  if (k == "le")
    return ref_cst_t::mk_le(a, b, o);
  if (k == "gt")
    return ref_cst_t::mk_gt(a, b, o);
  if (k == "ge")
    return ref_cst_t::mk_ge(a, b, o);
  throw std::runtime_error("simir: bad ref constraint kind " + k);
}

static void emit(block_t &b, const Stmt &s, const std::map<std::string, var_t> &vars,
                 const Function &f, std::vector<crab::tag> &tags) {
  auto V = [&](size_t i) -> const var_t & { return lookup(vars, s.v.at(i)); };
  auto E = [&](size_t i) { return to_lin_exp(s.e.at(i), vars); };
  auto N = [&](size_t i) { return to_num(s.n.at(i)); };
  using crab::cfg::debug_info;
  switch (s.op) {
  case Op::BINOP: {
    bool cst = s.v.size() < 3;
#define BIN(NAME, METHOD)                                                                        \
  if (s.k == NAME) {                                                                             \
    if (cst)                                                                                     \
      b.METHOD(V(0), V(1), N(0));                                                                \
    else                                                                                         \
      b.METHOD(V(0), V(1), V(2));                                                                \
    break;                                                                                       \
  }
    BIN("add", add)
    BIN("sub", sub)
    BIN("mul", mul)
    BIN("sdiv", div)
    BIN("udiv", udiv)
    BIN("srem", rem)
    BIN("urem", urem)
    BIN("and", bitwise_and)
    BIN("or", bitwise_or)
    BIN("xor", bitwise_xor)
    BIN("shl", shl)
    BIN("lshr", lshr)
    BIN("ashr", ashr)
#undef BIN
    throw std::runtime_error("simir: bad binop " + s.k);
  }
  case Op::ASSIGN:
    b.assign(V(0), E(0));
    break;
  case Op::ASSUME:
    b.assume(to_lin_cst(s.c, vars));
    break;
  case Op::ASSERT:
    b.assertion(to_lin_cst(s.c, vars), debug_info(s.id));
    break;
  case Op::SELECT:
    b.select(V(0), to_lin_cst(s.c, vars), E(0), E(1));
    break;
  case Op::HAVOC:
    b.havoc(V(0), "h" + std::to_string(s.id));
    break;
  case Op::UNREACH:
    b.unreachable();
    break;
  case Op::CAST:
    if (s.k == "trunc")
      b.truncate(V(1), V(0));
    else if (s.k == "sext")
      b.sext(V(1), V(0));
    else
      b.zext(V(1), V(0));
    break;
  case Op::BASSIGN_CST:
    b.bool_assign(V(0), to_lin_cst(s.c, vars));
    break;
  case Op::BASSIGN_VAR:
    b.bool_assign(V(0), V(1), s.f);
    break;
  case Op::BBINOP:
    if (s.k == "and")
      b.bool_and(V(0), V(1), V(2));
    else if (s.k == "or")
      b.bool_or(V(0), V(1), V(2));
    else
      b.bool_xor(V(0), V(1), V(2));
    break;
  case Op::BASSUME:
    if (s.f)
      b.bool_not_assume(V(0));
    else
      b.bool_assume(V(0));
    break;
  case Op::BASSERT:
    b.bool_assert(V(0), debug_info(s.id));
    break;
  case Op::BSELECT:
    b.bool_select(V(0), V(1), V(2), V(3));
    break;
  case Op::ARR_INIT:
    b.array_init(V(0), E(0), E(1), E(2), lin_exp_t(N(0)));
    break;
  case Op::ARR_STORE:
    b.array_store(V(0), E(0), E(1), lin_exp_t(N(0)), s.f);
    break;
  case Op::ARR_STORE_RANGE:
    b.array_store_range(V(0), E(0), E(1), E(2), lin_exp_t(N(0)));
    break;
  case Op::ARR_LOAD:
    b.array_load(V(0), V(1), E(0), lin_exp_t(N(0)));
    break;
  case Op::ARR_ASSIGN:
    b.array_assign(V(0), V(1));
    break;
  case Op::RGN_INIT:
    b.region_init(V(0));
    break;
  case Op::RGN_COPY:
    b.region_copy(V(0), V(1));
    break;
  case Op::MAKE_REF: {
    size_t site = (size_t)s.n.at(1).get_ui();
    if (site >= tags.size())
      throw std::runtime_error("simir: allocation site out of range");
    b.make_ref(V(0), V(1), var_or_cst_t(N(0), crab::variable_type(crab::INT_TYPE, 32)),
               tags[site]);
    break;
  }
  case Op::REMOVE_REF:
    b.remove_ref(V(0), V(1));
    break;
  case Op::LOAD_REF:
    b.load_from_ref(V(0), V(1), V(2));
    break;
  case Op::STORE_REF: {
    if (s.v.size() >= 3) {
      b.store_to_ref(V(0), V(1), var_or_cst_t(V(2)));
    } else {
      const VarDecl *rd = f.var(s.v.at(1));
      if (rd && rd->ty == Ty::RGN_BOOL)
        b.store_to_ref(V(0), V(1),
                       s.n.at(0) != 0 ? var_or_cst_t::make_bool_true()
                                      : var_or_cst_t::make_bool_false());
      else
        b.store_to_ref(V(0), V(1),
                       var_or_cst_t(N(0), crab::variable_type(crab::INT_TYPE,
                                                              rd ? rd->width : 32)));
    }
    break;
  }
  case Op::GEP_REF:
    b.gep_ref(V(0), V(1), V(2), V(3), E(0));
    break;
  case Op::ASSUME_REF:
    b.assume_ref(to_ref_cst(s.k, s.v, 0, s.n.empty() ? mpz_class(0) : s.n[0], vars));
    break;
  case Op::ASSERT_REF:
    b.assert_ref(to_ref_cst(s.k, s.v, 0, s.n.empty() ? mpz_class(0) : s.n[0], vars),
                 debug_info(s.id));
    break;
  case Op::BASSIGN_REFCST:
    b.bool_assign(V(0), to_ref_cst(s.k, s.v, 1, s.n.empty() ? mpz_class(0) : s.n[0], vars));
    break;
  case Op::SELECT_REF: {
    bool n1 = s.v.at(3).empty(), n2 = s.v.at(5).empty();
    if (n1 && !n2)
      b.select_ref_null_true_value(V(0), V(1), V(2), V(5), V(6));
    else if (!n1 && n2)
      b.select_ref_null_false_value(V(0), V(1), V(2), V(3), V(4));
    else if (!n1 && !n2)
      b.select_ref(V(0), V(1), V(2), V(3), V(4), V(5), V(6));
    else
      throw std::runtime_error("simir: select_ref with two nulls");
    break;
  }
  case Op::CALL: {
    size_t nout = (size_t)s.n.at(0).get_ui();
    std::vector<var_t> outs, args;
    for (size_t i = 0; i < s.v.size(); i++)
      (i < nout ? outs : args).push_back(V(i));
    b.callsite(s.k, outs, args);
    break;
  }
  case Op::INTRINSIC: {
    std::vector<var_t> outs;
    std::vector<crab::variable_or_constant<number_t, varname_t>> args;
    for (size_t i = 0; i < s.v.size(); i++)
      args.push_back(crab::variable_or_constant<number_t, varname_t>(V(i)));
    // trailing numeric arguments (add_tag(rgn, ref, TAG))
    for (size_t i = 0; i < s.n.size(); i++)
      args.push_back(crab::variable_or_constant<number_t, varname_t>(
          N(i), crab::variable_type(crab::INT_TYPE, 32)));
    b.intrinsic(s.k, outs, args);
    break;
  }
  }
}

std::unique_ptr<CrabProgram> build_program(const Program &p) {
  std::unique_ptr<CrabProgram> cp(new CrabProgram());
  cp->src = p;
  cp->vfac.reset(new variable_factory_t());
  crab::tag_manager tm;
  std::vector<crab::tag> tags;
  for (int i = 0; i < 64; i++)
    tags.push_back(tm.mk_tag());
  cp->funcs.resize(cp->src.funcs.size());
  for (size_t fi = 0; fi < cp->src.funcs.size(); fi++) {
    const Function &f = cp->src.funcs[fi];
    CrabFunction &cf = cp->funcs[fi];
    cf.src = &f;
    for (auto &d : f.vars)
      cf.vars.insert({d.name, make_var(*cp->vfac, d)});
    if (f.blocks.empty())
      throw std::runtime_error("simir: function without blocks");
    const std::string &entry = f.blocks[0].label;
    if (!f.name.empty()) {
      std::vector<var_t> ins, outs;
      for (auto &i : f.inputs)
        ins.push_back(lookup(cf.vars, i));
      for (auto &o : f.outputs)
        outs.push_back(lookup(cf.vars, o));
      fdecl_t decl(f.name, ins, outs);
      if (f.exit.empty()) {
        cf.cfg.reset(new cfg_t(entry));
        cf.cfg->set_func_decl(decl);
      } else
        cf.cfg.reset(new cfg_t(entry, f.exit, decl));
    } else if (f.exit.empty())
      cf.cfg.reset(new cfg_t(entry));
    else
      cf.cfg.reset(new cfg_t(entry, f.exit));
    for (auto &b : f.blocks)
      cf.cfg->insert(b.label);
    for (auto &b : f.blocks) {
      block_t &cb = cf.cfg->get_node(b.label);
      for (auto &s : b.stmts)
        emit(cb, s, cf.vars, f, tags);
      for (auto &su : b.succs) {
        if (!f.block(su))
          throw std::runtime_error("simir: successor " + su + " does not exist");
        cb >> cf.cfg->get_node(su);
      }
    }
  }
  return cp;
}

} // namespace sim
