#include "core.hpp"
#include <crab/types/varname_factory.hpp>
#include "absval.hpp"
#include "hooks.hpp"
#include <crab/domains/abstract_domain_params.hpp>
#include <algorithm>

namespace sim {

std::vector<PropertyEngine> &property_registry() {
  static std::vector<PropertyEngine> reg;
  return reg;
}
const PropertyEngine *find_property(const std::string &id) {
  for (auto &e : property_registry())
    if (e.id == id)
      return &e;
  return nullptr;
}

std::vector<std::string> domains_with(unsigned must, unsigned must_not, bool core_only) {
  std::vector<std::string> r;
  for (auto &d : domain_registry()) {
    if ((d.caps & must) != must)
      continue;
    if (d.caps & must_not)
      continue;
    if (core_only && !(d.caps & CAP_CORE))
      continue;
    r.push_back(d.name);
  }
  return r;
}

// All knobs are reset to crab's defaults first, so that a case never
// inherits settings from an earlier case of the same process.
void apply_knobs(const Case &c) {
  // hook H4: the process-wide name factory of the term / region domains starts afresh
  // (no abstract value is alive between two cases)
  crab::var_factory_impl::str_var_alloc_col::verif_reset();
  auto &p = crab::domains::crab_domain_params_man::get();
  p = crab::domains::crab_domain_params();
  if (c.params.has("knobs"))
    for (auto &kv : c.params.at("knobs").o)
      p.set_param(kv.first, kv.second.as_str());
  // neutraliser of KF36: run fixed_tvpi_domain without tracked coefficients,
  // i.e. without its ghost-variable layer (the domain is then its base domain)
  if (c.pbool("tvpi_off"))
    p.coefficients().clear();
  HookState &h = hooks();
  h.unusual_enabled = c.pint("ntow_per_mille", 0) > 0;
  h.unusual_per_mille = (unsigned)c.pint("ntow_per_mille", 0);
  h.unusual_seed = c.exec_seed ^ 0x77;
  h.unusual_seen = 0;
  h.unusual_fired = 0;
  h.refused_queries = 0;
  h.tag_checks = 0;
  h.td_check_delayed_now = c.pbool("td_check_now");
}

void random_knobs(Rng &r, const std::string &domain, Json &params) {
  Json k = Json::obj();
  auto b = [&](const char *name) { k.set(name, r.coin() ? "true" : "false"); };
  bool any = false;
  if (domain.find("zones") != std::string::npos || domain.find("dbm") != std::string::npos ||
      domain.find("tvpi") != std::string::npos) {
    if (r.chance(2, 3)) {
      b("zones.chrome_dijkstra");
      b("zones.widen_restabilize");
      b("zones.special_assign");
      b("zones.close_bounds_inline");
      any = true;
    }
  }
  if (domain.find("tvpi") != std::string::npos) {
    static const char *co[] = {"2", "2,3", "3,5", "2,4,7"};
    k.set("fixed_tvpi.coefficients", co[r.below(4)]);
    any = true;
  }
  if (domain.find("oct") != std::string::npos) {
    if (r.chance(2, 3)) {
      b("oct.chrome_dijkstra");
      b("oct.widen_restabilize");
      b("oct.special_assign");
      b("oct.close_bounds_inline");
      any = true;
    }
  }
  if (domain.find("pow") != std::string::npos) {
    if (r.chance(2, 3)) {
      b("powerset.exact_meet");
      static const char *md[] = {"1", "2", "3", "8", "99999"};
      k.set("powerset.max_disjuncts", md[r.below(5)]);
      any = true;
    }
  }
  if (domain.find("aa_") != std::string::npos) {
    if (r.chance(3, 4)) {
      b("array_adaptive.is_smashable");
      b("array_adaptive.smash_at_nonzero_offset");
      static const char *sz[] = {"1", "2", "4", "8", "64"};
      unsigned a = (unsigned)r.below(5), c2 = (unsigned)r.below(5);
      if (a > c2)
        std::swap(a, c2);
      // set the size first: the constructor invariant is cells <= size
      k.set("array_adaptive.max_array_size", sz[c2]);
      k.set("array_adaptive.max_smashable_cells", sz[a]);
      any = true;
    }
  }
  if (domain.find("rgn") != std::string::npos) {
    if (r.chance(3, 4)) {
      b("region.allocation_sites");
      b("region.deallocation");
      b("region.tag_analysis");
      b("region.is_dereferenceable");
      b("region.skip_unknown_regions");
      any = true;
    }
  }
  if (any)
    params.set("knobs", k);
}

// ---------------------------------------------------------------------------
// Input-level neutralisers
// ---------------------------------------------------------------------------
static Stmt havoc_of(const std::string &v, int id) {
  Stmt h;
  h.op = Op::HAVOC;
  h.v = {v};
  h.id = id;
  return h;
}

void rewrite_program(Program &p, const std::string &what) {
  int hid = 100000;
  if (what == "break_recursion") {
    // reach[f] = functions reachable from f through calls
    std::map<std::string, std::set<std::string>> calls, reach;
    for (auto &f : p.funcs)
      for (auto &b : f.blocks)
        for (auto &s : b.stmts)
          if (s.op == Op::CALL)
            calls[f.name].insert(s.k);
    for (auto &f : p.funcs) {
      std::vector<std::string> q(calls[f.name].begin(), calls[f.name].end());
      while (!q.empty()) {
        std::string g = q.back();
        q.pop_back();
        if (reach[f.name].insert(g).second)
          for (auto &h : calls[g])
            q.push_back(h);
      }
    }
    for (auto &f : p.funcs)
      for (auto &b : f.blocks) {
        std::vector<Stmt> ns;
        for (auto &s : b.stmts) {
          if (s.op == Op::CALL && (s.k == f.name || reach[s.k].count(f.name))) {
            size_t nout = (size_t)s.n.at(0).get_ui();
            for (size_t i = 0; i < nout && i < s.v.size(); i++)
              ns.push_back(havoc_of(s.v[i], hid++));
          } else
            ns.push_back(s);
        }
        b.stmts = ns;
      }
    return;
  }
  if (what == "calls_to_havoc") {
    // every call site becomes a havoc of its left-hand sides (what an
    // intra-procedural analysis assumes about a call)
    for (auto &f : p.funcs)
      for (auto &b : f.blocks) {
        std::vector<Stmt> ns;
        for (auto &s : b.stmts) {
          if (s.op == Op::CALL) {
            size_t nout = (size_t)s.n.at(0).get_ui();
            for (size_t i = 0; i < nout && i < s.v.size(); i++)
              ns.push_back(havoc_of(s.v[i], hid++));
          } else
            ns.push_back(s);
        }
        b.stmts = ns;
      }
    return;
  }
  if (what == "drop_dead_end_asserts") {
    for (auto &f : p.funcs) {
      if (f.exit.empty())
        continue;
      // blocks that can reach the exit
      std::set<std::string> ok = {f.exit};
      bool ch = true;
      while (ch) {
        ch = false;
        for (auto &b : f.blocks)
          if (!ok.count(b.label))
            for (auto &su : b.succs)
              if (ok.count(su)) {
                ok.insert(b.label);
                ch = true;
                break;
              }
      }
      for (auto &b : f.blocks)
        if (!ok.count(b.label)) {
          std::vector<Stmt> ns;
          for (auto &s : b.stmts)
            if (!s.is_assert())
              ns.push_back(s);
          b.stmts = ns;
        }
    }
    return;
  }
  if (what == "unique_names") {
    for (auto &f : p.funcs) {
      std::string pre = (f.name.empty() ? std::string("fn") : f.name) + "__";
      auto rn = [&](std::string &v) {
        if (!v.empty() && v.compare(0, pre.size(), pre) != 0)
          v = pre + v;
      };
      for (auto &d : f.vars)
        rn(d.name);
      for (auto &v : f.inputs)
        rn(v);
      for (auto &v : f.outputs)
        rn(v);
      for (auto &b : f.blocks)
        for (auto &s : b.stmts) {
          for (auto &v : s.v)
            rn(v);
          for (auto &e : s.e)
            for (auto &t : e.terms)
              rn(t.first);
          for (auto &t : s.c.e.terms)
            rn(t.first);
        }
    }
    return;
  }
  if (what.compare(0, 8, "replace:") == 0) {
    std::string spec = what.substr(8), opn = spec, kind;
    size_t dot = spec.find('.');
    if (dot != std::string::npos) {
      opn = spec.substr(0, dot);
      kind = spec.substr(dot + 1);
    }
    for (auto &f : p.funcs)
      for (auto &b : f.blocks)
        for (auto &s : b.stmts)
          if (opn == op_names[(int)s.op] && (kind.empty() || kind == s.k) && !s.v.empty())
            s = havoc_of(s.v[0], hid++);
    return;
  }
}

// ---------------------------------------------------------------------------
// Minimiser: greedy delta debugging over the explicit case. A candidate is
// accepted only if the SAME violation class persists.
// ---------------------------------------------------------------------------
namespace {
struct Min {
  const PropertyEngine &pe;
  std::string cls;
  int budget;
  int reruns = 0;
  Min(const PropertyEngine &p, const std::string &c, int b) : pe(p), cls(c), budget(b) {}
  bool still_fails(const Case &c) {
    if (reruns >= budget)
      return false;
    if (!c.prog.funcs.empty() && !simir_wellformed(c.prog))
      return false;
    reruns++;
    Stats st;
    Outcome o;
    try {
      o = pe.check(c, st);
    } catch (...) {
      return false;
    }
    return o.violated && o.v.cls() == cls;
  }
};

bool remove_block(Function &f, size_t bi) {
  if (bi == 0)
    return false; // entry
  std::string l = f.blocks[bi].label;
  if (l == f.exit)
    return false;
  f.blocks.erase(f.blocks.begin() + bi);
  for (auto &b : f.blocks)
    b.succs.erase(std::remove(b.succs.begin(), b.succs.end(), l), b.succs.end());
  return true;
}
} // namespace

Case minimise(const PropertyEngine &pe, const Case &c0, const Violation &v, int budget,
              int *reruns_out) {
  Min m(pe, v.cls(), budget);
  Case cur = c0;
  cur.origin_seed = 0;
  bool progress = true;
  while (progress && m.reruns < budget) {
    progress = false;
    // 1. drop fault / perturbation parameters
    for (const char *k : {"ntow_per_mille", "f4", "liveness"}) {
      if (cur.params.has(k) && cur.params.at(k).as_int() != 0) {
        Case t = cur;
        t.params.set(k, 0);
        if (m.still_fails(t)) {
          cur = t;
          progress = true;
        }
      }
    }
    if (cur.params.has("knobs")) {
      Case t = cur;
      Json np = Json::obj();
      for (auto &kv : t.params.o)
        if (kv.first != "knobs")
          np.set(kv.first, kv.second);
      t.params = np;
      if (m.still_fails(t)) {
        cur = t;
        progress = true;
      }
    }
    // 2. fewer executions
    while (cur.n_execs > 1) {
      Case t = cur;
      t.n_execs = cur.n_execs / 2;
      if (m.still_fails(t)) {
        cur = t;
        progress = true;
      } else
        break;
    }
    // 3. program: functions, blocks, edges, statements
    if (!cur.prog.funcs.empty()) {
      for (size_t fi = cur.prog.funcs.size(); fi-- > 1;) {
        Case t = cur;
        std::string name = t.prog.funcs[fi].name;
        t.prog.funcs.erase(t.prog.funcs.begin() + fi);
        for (auto &f : t.prog.funcs)
          for (auto &b : f.blocks) {
            std::vector<Stmt> ns;
            for (auto &s : b.stmts)
              if (!(s.op == Op::CALL && s.k == name))
                ns.push_back(s);
            b.stmts = ns;
          }
        if (m.still_fails(t)) {
          cur = t;
          progress = true;
        }
      }
      for (size_t fi = 0; fi < cur.prog.funcs.size(); fi++) {
        for (size_t bi = cur.prog.funcs[fi].blocks.size(); bi-- > 1;) {
          Case t = cur;
          if (!remove_block(t.prog.funcs[fi], bi))
            continue;
          if (m.still_fails(t)) {
            cur = t;
            progress = true;
          }
        }
        for (size_t bi = 0; bi < cur.prog.funcs[fi].blocks.size(); bi++) {
          // edges
          for (size_t si = cur.prog.funcs[fi].blocks[bi].succs.size(); si-- > 0;) {
            Case t = cur;
            auto &su = t.prog.funcs[fi].blocks[bi].succs;
            su.erase(su.begin() + si);
            if (m.still_fails(t)) {
              cur = t;
              progress = true;
            }
          }
          // statements
          for (size_t si = cur.prog.funcs[fi].blocks[bi].stmts.size(); si-- > 0;) {
            Case t = cur;
            auto &st = t.prog.funcs[fi].blocks[bi].stmts;
            st.erase(st.begin() + si);
            if (m.still_fails(t)) {
              cur = t;
              progress = true;
            }
          }
        }
      }
      // 4. constants toward zero / one
      for (size_t fi = 0; fi < cur.prog.funcs.size(); fi++)
        for (size_t bi = 0; bi < cur.prog.funcs[fi].blocks.size(); bi++)
          for (size_t si = 0; si < cur.prog.funcs[fi].blocks[bi].stmts.size(); si++) {
            auto simplify = [&](std::function<bool(Stmt &)> edit) {
              Case t = cur;
              if (!edit(t.prog.funcs[fi].blocks[bi].stmts[si]))
                return;
              if (m.still_fails(t)) {
                cur = t;
                progress = true;
              }
            };
            size_t ne = cur.prog.funcs[fi].blocks[bi].stmts[si].e.size();
            for (size_t k = 0; k < ne; k++) {
              simplify([k](Stmt &s) {
                if (s.e[k].cst == 0)
                  return false;
                s.e[k].cst = 0;
                return true;
              });
              simplify([k](Stmt &s) {
                if (s.e[k].terms.size() < 2)
                  return false;
                s.e[k].terms.pop_back();
                return true;
              });
            }
            simplify([](Stmt &s) {
              if (s.c.e.cst == 0 || (s.op != Op::ASSUME && s.op != Op::ASSERT &&
                                     s.op != Op::SELECT && s.op != Op::BASSIGN_CST))
                return false;
              s.c.e.cst = 0;
              return true;
            });
            simplify([](Stmt &s) {
              if (s.c.e.terms.size() < 2)
                return false;
              s.c.e.terms.pop_back();
              return true;
            });
          }
      // 5. unused variables
      for (size_t fi = 0; fi < cur.prog.funcs.size(); fi++) {
        Function &f = cur.prog.funcs[fi];
        std::set<std::string> used(f.inputs.begin(), f.inputs.end());
        used.insert(f.outputs.begin(), f.outputs.end());
        for (auto &b : f.blocks)
          for (auto &s : b.stmts) {
            for (auto &x : s.v)
              used.insert(x);
            for (auto &e : s.e)
              for (auto &t : e.terms)
                used.insert(t.first);
            for (auto &t : s.c.e.terms)
              used.insert(t.first);
          }
        Case t = cur;
        std::vector<VarDecl> nv;
        for (auto &d : f.vars)
          if (used.count(d.name))
            nv.push_back(d);
        if (nv.size() < f.vars.size()) {
          t.prog.funcs[fi].vars = nv;
          if (m.still_fails(t)) {
            cur = t;
            progress = true;
          }
        }
      }
    }
    // 6. analysis parameters toward defaults
    struct PD {
      const char *k;
      long def;
    };
    for (PD pd : {PD{"delay", 1}, PD{"desc", 1}, PD{"thr", 0}, PD{"policy", 1}, PD{"large", 0}}) {
      if (cur.params.has(pd.k) && cur.params.at(pd.k).as_int() != pd.def) {
        Case t = cur;
        t.params.set(pd.k, pd.def);
        if (m.still_fails(t)) {
          cur = t;
          progress = true;
        }
      }
    }
    // 7. history cases: drop operations
    for (const char *hk : {"steps", "ops"}) {
      if (!(cur.hist.kind == Json::OBJ && cur.hist.has(hk)))
        continue;
      size_t n = cur.hist.at(hk).a.size();
      if (n == 0)
        continue;
      for (size_t chunk = std::max<size_t>(1, n / 2); chunk >= 1; chunk /= 2) {
        for (size_t start = 0; start < cur.hist.at(hk).a.size();) {
          Case t = cur;
          auto &ops = t.hist.ref(hk).a;
          size_t end = std::min(ops.size(), start + chunk);
          ops.erase(ops.begin() + start, ops.begin() + end);
          if (m.still_fails(t)) {
            cur = t;
            progress = true;
          } else
            start += chunk;
          if (m.reruns >= budget)
            break;
        }
        if (chunk == 1)
          break;
      }
    }
  }
  if (reruns_out)
    *reruns_out = m.reruns;
  return cur;
}

} // namespace sim
