#include "gamma.hpp"
#include <algorithm>
#include "hooks.hpp"

namespace sim {

std::string Sigma::str() const {
  std::string r = "{";
  for (auto &p : ints)
    r += p.first.name().str() + "=" + p.second.get_str() + " ";
  for (auto &p : bools)
    r += p.first.name().str() + "=" + (p.second ? "true" : "false") + " ";
  for (auto &p : refs)
    r += p.v.name().str() + "=" + (p.is_null ? "null" : "&site" + std::to_string(p.site)) + " ";
  return r + "}";
}

Sigma sigma_of(const Store &st, const std::map<std::string, var_t> &vars,
               const std::vector<HeapObj> *heap) {
  Sigma s;
  for (auto &kv : vars) {
    const Value *v = st.get(kv.second);
    if (!v)
      continue;
    if (v->k == Value::INT)
      s.ints.push_back({kv.second, v->i});
    else if (v->k == Value::BOOL)
      s.bools.push_back({kv.second, v->b});
    else if (v->k == Value::REF && heap) {
      Sigma::RefInfo ri{kv.second, v->obj == 0, v->obj ? (*heap)[v->obj].site : -1};
      s.refs.push_back(ri);
    }
  }
  // tagged cells reachable through a live reference variable
  if (heap)
    for (auto &rk : vars) {
      const Value *rv = st.get(rk.second);
      if (!rv || rv->k != Value::RGN || !rv->rgn)
        continue;
      for (auto &pk : vars) {
        const Value *pv = st.get(pk.second);
        if (!pv || pv->k != Value::REF || pv->obj == 0 || (*heap)[pv->obj].freed)
          continue;
        auto it = rv->rgn->cells.find(pv->i);
        if (it == rv->rgn->cells.end() || !it->second.tags || it->second.tags->empty())
          continue;
        Sigma::TagInfo ti{rk.second, pk.second, *it->second.tags};
        s.tags.push_back(ti);
      }
    }
  return s;
}

bool interval_contains(const interval_t &i, const mpz_class &v) {
  if (i.is_bottom())
    return false;
  auto lb = i.lb(), ub = i.ub();
  if (lb.is_finite()) {
    auto n = lb.number();
    if (n && to_mpz(*n) > v)
      return false;
  } else if (lb.is_plus_infinity())
    return false;
  if (ub.is_finite()) {
    auto n = ub.number();
    if (n && to_mpz(*n) < v)
      return false;
  } else if (ub.is_minus_infinity())
    return false;
  return true;
}

int eval_cst_sigma(const lin_cst_t &c, const Sigma &s) {
  mpz_class acc = to_mpz(c.expression().constant());
  for (auto it = c.expression().begin(), et = c.expression().end(); it != et; ++it) {
    auto comp = *it;
    bool found = false;
    for (auto &p : s.ints)
      if (p.first.index() == comp.second.index()) {
        acc += to_mpz(comp.first) * p.second;
        found = true;
        break;
      }
    if (!found)
      for (auto &p : s.bools)
        if (p.first.index() == comp.second.index()) {
          if (p.second)
            acc += to_mpz(comp.first);
          found = true;
          break;
        }
    if (!found)
      return -1;
  }
  switch (c.kind()) {
  case lin_cst_t::EQUALITY:
    return acc == 0;
  case lin_cst_t::DISEQUATION:
    return acc != 0;
  case lin_cst_t::INEQUALITY:
    return acc <= 0;
  case lin_cst_t::STRICT_INEQUALITY:
    return acc < 0;
  }
  return -1;
}

static std::string cst_str(const lin_cst_t &c) {
  crab::crab_string_os os;
  os << c;
  return os.str();
}
static std::string itv_str(const interval_t &i) {
  crab::crab_string_os os;
  os << i;
  return os.str();
}

GammaResult in_gamma(const AbsVal &inv, const Sigma &s, const GammaOpts &o, GammaCache *cache) {
  GammaResult r;
  auto fail = [&](const char *item, const std::string &d) {
    r.ok = false;
    r.item = item;
    r.detail = d;
    return r;
  };
  if (inv.is_bottom())
    return fail("bottom", "value is bottom but a concrete state exists: " + s.str());

  // A query that crab refuses (CRAB_ERROR, e.g. at() / operator[] /
  // to_linear_constraint_system() of a product_value_partitioning_domain that has
  // partitions: "at unreachable") is not an answer: the item is skipped and the
  // remaining items still judge the value.
  try {
    for (auto &p : s.ints) {
      interval_t i = inv.at(p.first);
      if (!interval_contains(i, p.second))
        return fail("at", p.first.name().str() + "=" + p.second.get_str() + " not in at()=" +
                              itv_str(i));
    }
  } catch (const FatalError &) {
    hooks().refused_queries++;
  }
  if (o.use_index) {
    try {
      AbsVal::P c = inv.clone();
      for (auto &p : s.ints) {
        interval_t i = c->index(p.first);
        if (!interval_contains(i, p.second))
          return fail("index", p.first.name().str() + "=" + p.second.get_str() +
                                   " not in operator[]=" + itv_str(i));
      }
    } catch (const FatalError &) {
      hooks().refused_queries++;
    }
  }
  if (o.export_lin) {
    try {
      lin_cst_sys_t local;
      if (cache && !cache->has_lin) {
        cache->lin = inv.to_lin();
        cache->has_lin = true;
      } else if (!cache)
        local = inv.to_lin();
      const lin_cst_sys_t &sys = cache ? cache->lin : local;
      for (auto const &c : sys) {
        if (eval_cst_sigma(c, s) == 0)
          return fail("lin", "exported constraint " + cst_str(c) + " is false in " + s.str());
      }
    } catch (const FatalError &) {
      hooks().refused_queries++;
    }
  }
  if (o.export_disj) {
    // some domains refuse this query (CRAB_ERROR "TODO"): a refusal is not an answer
    disj_lin_cst_sys_t d;
    bool have = true;
    try {
      d = inv.to_disj();
    } catch (const FatalError &) {
      have = false;
    }
    if (!have) {
    } else if (d.is_false())
      return fail("disj", "disjunctive export is false");
    else if (!d.is_true()) {
      bool some = false;
      for (auto const &sys : d) {
        bool refuted = false;
        for (auto const &c : sys)
          if (eval_cst_sigma(c, s) == 0) {
            refuted = true;
            break;
          }
        if (!refuted) {
          some = true;
          break;
        }
      }
      if (!some)
        return fail("disj", "every disjunct of the disjunctive export is false in " + s.str());
    }
  }
  if (o.probes) {
    for (size_t k = 0; k < s.ints.size(); k++) {
      auto &p = s.ints[k];
      lin_exp_t x(p.first);
      number_t v = to_num(p.second);
      lin_cst_t probes[3] = {lin_cst_t(x - (v - number_t(1)), lin_cst_t::INEQUALITY), // x <= v-1
                             lin_cst_t((v + number_t(1)) - x, lin_cst_t::INEQUALITY), // x >= v+1
                             lin_cst_t(x - v, lin_cst_t::DISEQUATION)};               // x != v
      if (o.bv) {
        // x <= v-1 / x >= v+1 would need a constant outside the signed range
        auto ty = p.first.get_type();
        unsigned w = ty.is_integer() ? ty.get_integer_bitwidth() : 0;
        if (w < 2)
          continue;
        mpz_class half;
        mpz_ui_pow_ui(half.get_mpz_t(), 2, w - 1);
        if (p.second - 1 < -half || p.second + 1 >= half)
          continue;
      }
      for (auto &c : probes)
        if (inv.entails(c))
          return fail("entails", "claims to entail " + cst_str(c) + " which is false in " +
                                     s.str());
      if (k + 1 < s.ints.size() && !o.bv) {
        auto &q = s.ints[k + 1];
        lin_exp_t y(q.first);
        number_t d = to_num(p.second - q.second);
        lin_cst_t rel[2] = {lin_cst_t(x - y - (d - number_t(1)), lin_cst_t::INEQUALITY),
                            lin_cst_t(y - x + (d + number_t(1)), lin_cst_t::INEQUALITY)};
        for (auto &c : rel)
          if (inv.entails(c))
            return fail("entails", "claims to entail " + cst_str(c) + " which is false in " +
                                       s.str());
      }
    }
  }
  if (o.point_meet) {
    AbsVal::P c = inv.clone();
    lin_cst_sys_t sys;
    for (auto &p : s.ints)
      sys += lin_cst_t(lin_exp_t(p.first) - to_num(p.second), lin_cst_t::EQUALITY);
    c->add_constraints(sys);
    if (c->is_bottom())
      return fail("point_meet", "meet with the point " + s.str() + " is bottom");
    for (auto &p : s.bools) {
      c->assume_bool(p.first, !p.second);
      if (c->is_bottom())
        return fail("point_meet", "meet with the point " + s.str() + " is bottom (boolean " +
                                      p.first.name().str() + ")");
    }
  }
  if (o.refs && !s.refs.empty()) {
    AbsVal::P c = inv.clone();
    for (auto &ri : s.refs) {
      crab::domains::boolean_value b = c->is_null_ref(ri.v);
      if (b.is_true() && !ri.is_null)
        return fail("null_ref", ri.v.name().str() + " reported null but is not");
      if (b.is_false() && ri.is_null)
        return fail("null_ref", ri.v.name().str() + " reported non-null but is null");
      if (!ri.is_null) {
        std::vector<crab::tag> sites;
        if (c->get_allocation_sites(ri.v, sites)) {
          bool found = false;
          for (auto &t : sites)
            if ((int)t.index() == ri.site)
              found = true;
          if (!found)
            return fail("alloc_site", ri.v.name().str() + " allocation site " +
                                          std::to_string(ri.site) + " not in reported set");
        }
      }
    }
  }
  if (o.refs && !s.tags.empty()) {
    AbsVal::P c = inv.clone();
    for (auto &ti : s.tags) {
      std::vector<uint64_t> reported;
      if (!c->get_tags(ti.rgn, ti.ref, reported))
        continue; // no answer (analysis off, or top)
      hooks().tag_checks++;
      for (int t : ti.tags)
        if (std::find(reported.begin(), reported.end(), (uint64_t)t) == reported.end())
          return fail("tags", "the cell " + ti.ref.name().str() + " points to in region " +
                                  ti.rgn.name().str() + " carries tag " + std::to_string(t) +
                                  " which is not in the reported set");
    }
  }
  return r;
}

} // namespace sim
