// The membership monitor in_gamma(inv, sigma): "the concrete state sigma is
// described by the abstract value inv" (DESIGN.md 4.4). One-sided: it uses
// only crab's own query API, so it can only fail when crab contradicts
// itself or the concrete state.
#pragma once
#include "absval.hpp"
#include "machine.hpp"

namespace sim {

struct GammaOpts {
  bool use_index = true;   // also query operator[] on a copy
  bool export_lin = true;  // check to_linear_constraint_system
  bool export_disj = true; // check to_disjunctive_linear_constraint_system
  bool probes = true;      // entails() probes with constraints false in sigma
  bool point_meet = true;  // meet with the point must not be bottom
  bool refs = true;        // is_null_ref / allocation sites
  bool bv = false;         // BV profile: only single-variable probes whose constants fit the signed width
};

struct GammaResult {
  bool ok = true;
  std::string item; // which item failed: bottom, at, index, lin, disj, entails, point_meet, null_ref, alloc_site
  std::string detail;
};

// scalar projection of a store: the variables the oracle can talk about
struct Sigma {
  std::vector<std::pair<var_t, mpz_class>> ints;
  std::vector<std::pair<var_t, bool>> bools;
  struct RefInfo {
    var_t v;
    bool is_null;
    int site;
  };
  std::vector<RefInfo> refs;
  // tag analysis: (region, reference into it, tags of the cell it points to)
  struct TagInfo {
    var_t rgn, ref;
    std::set<int> tags;
  };
  std::vector<TagInfo> tags;
  std::string str() const;
};

Sigma sigma_of(const Store &st, const std::map<std::string, var_t> &vars,
               const std::vector<HeapObj> *heap = nullptr);

// Exports of an invariant that is queried many times and never mutated in between
// (the caller owns the cache and must drop it when it mutates the value).
struct GammaCache {
  bool has_lin = false;
  lin_cst_sys_t lin;
};

GammaResult in_gamma(const AbsVal &inv, const Sigma &s, const GammaOpts &o,
                     GammaCache *cache = nullptr);

bool interval_contains(const interval_t &i, const mpz_class &v);
// evaluate a crab constraint on sigma: 1 holds, 0 fails, -1 mentions a variable not in sigma
int eval_cst_sigma(const lin_cst_t &c, const Sigma &s);

} // namespace sim
