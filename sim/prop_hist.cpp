// Engine sim_hist: operation histories over several holders (registers) of
// abstract values, with a mirror of concrete witness states as reference
// model (DESIGN.md 3.4). Serves C03 (soundness of every operation under
// arbitrary histories), C04 (inclusion test and lattice operations), C05b
// (widening chains), C16 (value semantics, benign events, wrapper refinement).
#include "core.hpp"
#include "gamma.hpp"
#include "hooks.hpp"
#include <algorithm>

namespace sim {
namespace {

const int N_INT = 5;   // v0..v4 (+ t0,t1 fresh names for rename/expand)
const int N_BOOL = 2;  // p0,p1
const size_t MAX_WIT = 12;

// BV profile (C13): width of the integer variables of the running case (0 = the
// mathematical-integer profile). Set at the start of every check; the harness is
// single threaded per process.
static unsigned g_bvw = 0;
static bool g_bv_strict = false;

struct Witness {
  std::map<std::string, mpz_class> i;
  std::map<std::string, bool> b;
  bool operator==(const Witness &o) const { return i == o.i && b == o.b; }
  bool operator<(const Witness &o) const { return i != o.i ? i < o.i : b < o.b; }
};

struct Reg {
  AbsVal::P val;
  std::vector<Witness> wit; // concrete states known to be described by val
};

struct Ctx {
  variable_factory_t vfac;
  std::map<std::string, var_t> vars;
  std::vector<std::string> ints, bools, fresh;
  const DomainInfo *di = nullptr;
  bool int64 = false;
  explicit Ctx(unsigned width = 32) {
    for (int k = 0; k < N_INT; k++)
      ints.push_back("v" + std::to_string(k));
    fresh = {"t0", "t1"};
    for (int k = 0; k < N_BOOL; k++)
      bools.push_back("p" + std::to_string(k));
    for (auto &n : ints)
      vars.insert({n, var_t(vfac[n], crab::INT_TYPE, width)});
    for (auto &n : fresh)
      vars.insert({n, var_t(vfac[n], crab::INT_TYPE, width)});
    for (auto &n : bools)
      vars.insert({n, var_t(vfac[n], crab::BOOL_TYPE, 1)});
  }
  const var_t &v(const std::string &n) const { return vars.at(n); }
};

Sigma sigma_of_witness(const Ctx &cx, const Witness &w) {
  Sigma s;
  for (auto &kv : w.i)
    s.ints.push_back({cx.v(kv.first), kv.second});
  for (auto &kv : w.b)
    s.bools.push_back({cx.v(kv.first), kv.second});
  return s;
}

void cap(std::vector<Witness> &w) {
  std::sort(w.begin(), w.end());
  w.erase(std::unique(w.begin(), w.end()), w.end());
  if (w.size() > MAX_WIT) {
    // deterministic thinning: keep an evenly spaced subset
    std::vector<Witness> k;
    for (size_t i = 0; i < MAX_WIT; i++)
      k.push_back(w[i * w.size() / MAX_WIT]);
    w = k;
  }
}

bool eval_exp(const LinExp &e, const Witness &w, mpz_class &out) {
  out = e.cst;
  for (auto &t : e.terms) {
    auto it = w.i.find(t.first);
    if (it == w.i.end()) {
      auto jt = w.b.find(t.first);
      if (jt == w.b.end())
        return false;
      if (jt->second)
        out += t.second;
    } else
      out += t.second * it->second;
  }
  return true;
}
int eval_cst(const LinCst &c, const Witness &w) {
  mpz_class v;
  if (!eval_exp(c.e, w, v))
    return -1;
  if (g_bvw) {
    // judged only when every sensible reading of the constraint agrees in this state
    // (see bv_cst_unambiguous in machine.cpp): a bound / (dis)equality on one variable
    // whose constant fits the signed range, or mathematical == modular truth value
    mpz_class lim;
    mpz_ui_pow_ui(lim.get_mpz_t(), 2, g_bvw - 1);
    for (auto &t : c.e.terms)
      if (!w.i.count(t.first))
        return -1;
    auto truth = [&](const mpz_class &x) {
      switch (c.kind) {
      case LinCst::LEQ:
        return x <= 0;
      case LinCst::LT:
        return x < 0;
      case LinCst::EQ:
        return x == 0;
      default:
        return x != 0;
      }
    };
    if (c.e.terms.size() == 1 && (c.e.terms[0].second == 1 || c.e.terms[0].second == -1)) {
      mpz_class bound = -c.e.cst * c.e.terms[0].second;
      if (bound < -lim || bound >= lim)
        return -1;
    } else if (!c.e.terms.empty()) {
      // constants outside the signed range have no agreed meaning (crab reduces them)
      if (abs(c.e.cst) >= lim)
        return -1;
      mpz_class acc = abs(c.e.cst);
      for (auto &t : c.e.terms) {
        if (abs(t.second) >= lim)
          return -1;
        acc += abs(t.second * w.i.at(t.first));
      }
      if (g_bv_strict && acc >= lim) // neutraliser of KF61
        return -1;
      if (truth(v) != truth(bv_wrap(v, g_bvw)))
        return -1;
    }
  }
  switch (c.kind) {
  case LinCst::LEQ:
    return v <= 0;
  case LinCst::LT:
    return v < 0;
  case LinCst::EQ:
    return v == 0;
  case LinCst::NEQ:
    return v != 0;
  }
  return -1;
}

// concrete binary operation; returns false if the witness has no successor
// or the operation is outside the reference semantics for these operands
bool concrete_binop_bv(const std::string &k, mpz_class a, mpz_class b, bool b_is_const,
                       mpz_class &r) {
  unsigned w = g_bvw;
  mpz_class hi, lo;
  mpz_ui_pow_ui(hi.get_mpz_t(), 2, w);
  mpz_ui_pow_ui(lo.get_mpz_t(), 2, w - 1);
  if (b_is_const && (b < -lo || b >= hi))
    return false; // crab answers top for a constant that does not fit: nothing to check
  a = bv_wrap(a, w);
  b = bv_wrap(b, w);
  if (k == "add")
    r = a + b;
  else if (k == "sub")
    r = a - b;
  else if (k == "mul")
    r = a * b;
  else if (k == "sdiv" || k == "srem") {
    if (b == 0 || (a == -lo && b == -1))
      return false;
    if (k == "sdiv")
      mpz_tdiv_q(r.get_mpz_t(), a.get_mpz_t(), b.get_mpz_t());
    else
      mpz_tdiv_r(r.get_mpz_t(), a.get_mpz_t(), b.get_mpz_t());
  } else if (k == "udiv" || k == "urem") {
    if (b == 0)
      return false;
    mpz_class ua = bv_unsigned(a, w), ub = bv_unsigned(b, w);
    if (k == "udiv")
      mpz_tdiv_q(r.get_mpz_t(), ua.get_mpz_t(), ub.get_mpz_t());
    else
      mpz_tdiv_r(r.get_mpz_t(), ua.get_mpz_t(), ub.get_mpz_t());
  } else if (k == "and")
    r = a & b;
  else if (k == "or")
    r = a | b;
  else if (k == "xor")
    r = a ^ b;
  else if (k == "shl" || k == "lshr" || k == "ashr") {
    if (b < 0 || b >= w)
      return false;
    unsigned long s = b.get_ui();
    if (k == "shl")
      mpz_mul_2exp(r.get_mpz_t(), a.get_mpz_t(), s);
    else if (k == "ashr")
      mpz_fdiv_q_2exp(r.get_mpz_t(), a.get_mpz_t(), s);
    else {
      mpz_class ua = bv_unsigned(a, w);
      mpz_fdiv_q_2exp(r.get_mpz_t(), ua.get_mpz_t(), s);
    }
  } else
    return false;
  r = bv_wrap(r, w);
  return true;
}

bool concrete_binop(const std::string &k, const mpz_class &a, const mpz_class &b, mpz_class &r) {
  if (k == "add")
    r = a + b;
  else if (k == "sub")
    r = a - b;
  else if (k == "mul")
    r = a * b;
  else if (k == "sdiv" || k == "srem") {
    if (b == 0)
      return false;
    if (k == "sdiv")
      mpz_tdiv_q(r.get_mpz_t(), a.get_mpz_t(), b.get_mpz_t());
    else
      mpz_tdiv_r(r.get_mpz_t(), a.get_mpz_t(), b.get_mpz_t());
  } else if (k == "udiv" || k == "urem") {
    if (b <= 0 || a < 0)
      return false;
    if (k == "udiv")
      mpz_tdiv_q(r.get_mpz_t(), a.get_mpz_t(), b.get_mpz_t());
    else
      mpz_tdiv_r(r.get_mpz_t(), a.get_mpz_t(), b.get_mpz_t());
  } else if (k == "and")
    r = a & b;
  else if (k == "or")
    r = a | b;
  else if (k == "xor")
    r = a ^ b;
  else if (k == "shl" || k == "lshr" || k == "ashr") {
    if (b < 0 || b > 64)
      return false;
    unsigned long s = b.get_ui();
    if (k == "shl")
      mpz_mul_2exp(r.get_mpz_t(), a.get_mpz_t(), s);
    else if (k == "ashr")
      mpz_fdiv_q_2exp(r.get_mpz_t(), a.get_mpz_t(), s);
    else {
      if (a < 0)
        return false;
      mpz_fdiv_q_2exp(r.get_mpz_t(), a.get_mpz_t(), s);
    }
  } else
    return false;
  return mpz_sizeinbase(r.get_mpz_t(), 2) <= 100;
}

bool arith_op(const std::string &k, crab::domains::arith_operation_t &o) {
  using namespace crab::domains;
  if (k == "add")
    o = OP_ADDITION;
  else if (k == "sub")
    o = OP_SUBTRACTION;
  else if (k == "mul")
    o = OP_MULTIPLICATION;
  else if (k == "sdiv")
    o = OP_SDIV;
  else if (k == "udiv")
    o = OP_UDIV;
  else if (k == "srem")
    o = OP_SREM;
  else if (k == "urem")
    o = OP_UREM;
  else
    return false;
  return true;
}
bool bitwise_op(const std::string &k, crab::domains::bitwise_operation_t &o) {
  using namespace crab::domains;
  if (k == "and")
    o = OP_AND;
  else if (k == "or")
    o = OP_OR;
  else if (k == "xor")
    o = OP_XOR;
  else if (k == "shl")
    o = OP_SHL;
  else if (k == "lshr")
    o = OP_LSHR;
  else if (k == "ashr")
    o = OP_ASHR;
  else
    return false;
  return true;
}

// ---------------------------------------------------------------------------
// generation of operations
// ---------------------------------------------------------------------------
struct OpGen {
  Rng &r;
  int nregs;
  bool large;
  bool bools;
  unsigned bvw = 0;
  bool partition = false;
  bool big_probes = false;
  OpGen(Rng &rr, int n, bool lg, bool bl) : r(rr), nregs(n), large(lg), bools(bl) {}
  std::string iv() { return "v" + std::to_string(r.below(N_INT)); }
  std::string bv() { return "p" + std::to_string(r.below(N_BOOL)); }
  int reg() { return (int)r.below(nregs); }
  mpz_class cst() {
    if (bvw && r.chance(1, 4)) {
      mpz_class half;
      mpz_ui_pow_ui(half.get_mpz_t(), 2, bvw - 1);
      long d = (long)r.range(0, 2);
      switch (r.below(5)) {
      case 0:
        return half - 1 - d;
      case 1:
        return -half + d;
      case 2:
        return half / 2 + d;
      case 3:
        return 2 * half - 1 - d;
      default:
        return -(half / 2) - d;
      }
    }
    unsigned k = (unsigned)r.below(100);
    if (k < 50)
      return mpz_class((long)r.range(-4, 4));
    if (k < 80) {
      static const long m[] = {5, 7, 8, 10, 16, 31, 32, 100, 255};
      long v = m[r.below(9)];
      return mpz_class(r.coin() ? v : -v);
    }
    if (k < 93 || !large)
      return mpz_class((long)r.range(-40, 40));
    mpz_class v;
    mpz_ui_pow_ui(v.get_mpz_t(), 2, r.coin() ? 31 : (r.coin() ? 62 : 70));
    v += (long)r.range(-1, 1);
    return r.coin() ? v : mpz_class(-v);
  }
  mpz_class coef() {
    static const long cs[] = {1, 1, 1, -1, -1, 2, -2, 3, -3, 5, 0};
    return mpz_class(cs[r.below(11)]);
  }
  LinExp exp(int maxt) {
    LinExp e;
    int n = (int)r.range(0, maxt);
    for (int i = 0; i < n; i++)
      e.add_term(iv(), coef());
    if (e.terms.empty() || r.coin())
      e.cst = cst();
    return e;
  }
  LinCst cond() {
    LinCst c;
    unsigned s = (unsigned)r.below(100);
    c.kind = s < 40 ? LinCst::LEQ : s < 60 ? LinCst::LT : s < 80 ? LinCst::EQ : LinCst::NEQ;
    unsigned f = (unsigned)r.below(100);
    if (f < 45)
      c.e.add_term(iv(), r.coin() ? 1 : -1);
    else if (f < 75) {
      c.e.add_term(iv(), 1);
      c.e.add_term(iv(), -1);
    } else if (f < 85) {
      c.e.add_term(iv(), 1);
      c.e.add_term(iv(), 1);
    } else {
      c.e.add_term(iv(), coef());
      c.e.add_term(iv(), coef());
    }
    c.e.cst = cst();
    return c;
  }
  Json op(const char *name) {
    Json j = Json::obj();
    j.set("op", name);
    return j;
  }
  Json gen(bool lattice_ops, bool benign, bool alias) {
    for (;;) {
      if (big_probes && r.chance(1, 12)) {
        // overflow-check probe (raw int64 weights): one operation with a result near
        // 2^62 / 2^63 on a FRESH top value, judged at once and discarded
        Json j = op("big_probe");
        j.set("kind", (long)r.below(3));
        j.set("x", iv());
        j.set("y", iv());
        j.set("z", iv());
        mpz_class K;
        mpz_ui_pow_ui(K.get_mpz_t(), 2, r.coin() ? 62 : (r.coin() ? 63 : 61));
        K += (long)r.range(-2, 2);
        if (r.chance(1, 3))
          K = K * 3 / 2;
        if (r.coin())
          K = -K;
        j.set("n", zs(K));
        // two positive factors around 2^31.2: the product lies in [2^62, 2^63)
        mpz_class a, b;
        mpz_ui_pow_ui(a.get_mpz_t(), 2, 31);
        mpz_ui_pow_ui(b.get_mpz_t(), 2, 31);
        a += (long)r.range(0, 800000000);
        b += (long)r.range(0, 800000000);
        j.set("a", zs(a));
        j.set("b", zs(b));
        return j;
      }
      if (partition && r.chance(1, 8)) {
        // value-partitioning directive: no concrete effect
        Json j = op("partition");
        j.set("r", reg());
        j.set("x", iv());
        j.set("end", r.chance(1, 4));
        return j;
      }
      if (r.chance(1, 14)) {
        Json j = op("spread");
        j.set("r", reg());
        j.set("x", iv());
        static const long ms[] = {1, 2, 3, 4, 5, 7, 8, -2, -3};
        j.set("m", zs(mpz_class(ms[r.below(9)])));
        j.set("k", (long)r.below(3));
        return j;
      }
      if (r.chance(1, 14)) {
        Json j = op("assume_point");
        j.set("r", reg());
        j.set("x", iv());
        j.set("w", (long)r.below(12));
        j.set("kind", (long)r.below(3));
        return j;
      }
      unsigned k = (unsigned)r.below(100);
      if (k < 14) {
        Json j = op("assign");
        j.set("r", reg());
        j.set("x", iv());
        j.set("e", exp(3).to_json());
        return j;
      }
      if (k < 28) {
        static const char *ks[] = {"add", "sub", "mul", "sdiv", "srem", "udiv", "urem",
                                   "and", "or",  "xor", "shl",  "lshr", "ashr", "add", "sub"};
        Json j = op("binop");
        j.set("r", reg());
        std::string kk = ks[r.below(15)];
        j.set("k", kk);
        j.set("x", iv());
        j.set("y", iv());
        bool shift = (kk == "shl" || kk == "lshr" || kk == "ashr");
        if (!shift && r.coin())
          j.set("z", iv());
        else
          j.set("n", zs(shift ? mpz_class((long)r.range(0, 5)) : cst()));
        return j;
      }
      if (k < 34) {
        // constraint chosen relative to a witness of the register at run time, so
        // that most assumes keep some concrete state alive
        Json j = op("assume_rel");
        j.set("r", reg());
        j.set("x", iv());
        if (r.chance(2, 5))
          j.set("y", iv());
        j.set("kind", (long)r.below(4));
        j.set("w", (long)r.below(12));
        j.set("d", (long)r.range(0, 3));
        j.set("c", zs(coef()));
        return j;
      }
      if (k < 40) {
        Json j = op("assume");
        j.set("r", reg());
        Json cs = Json::arr();
        int n = r.chance(1, 4) ? 2 : 1;
        for (int i = 0; i < n; i++)
          cs.push(cond().to_json());
        j.set("cs", cs);
        return j;
      }
      if (k < 45) {
        Json j = op("select");
        j.set("r", reg());
        j.set("x", iv());
        j.set("c", cond().to_json());
        j.set("e1", exp(2).to_json());
        j.set("e2", exp(2).to_json());
        return j;
      }
      if (k < 50) {
        Json j = op("forget");
        j.set("r", reg());
        Json vs = Json::arr();
        int n = (int)r.range(1, 2);
        for (int i = 0; i < n; i++)
          vs.push(iv());
        j.set("vs", vs);
        j.set("many", r.coin());
        return j;
      }
      if (k < 53) {
        Json j = op("project");
        j.set("r", reg());
        Json vs = Json::arr();
        int n = (int)r.range(1, 3);
        for (int i = 0; i < n; i++)
          vs.push(iv());
        j.set("vs", vs);
        return j;
      }
      if (k < 56) {
        Json j = op("rename");
        j.set("r", reg());
        j.set("x", iv());
        j.set("t", r.coin() ? "t0" : "t1");
        return j;
      }
      if (k < 58) {
        Json j = op("expand");
        j.set("r", reg());
        j.set("x", iv());
        j.set("t", r.coin() ? "t0" : "t1");
        return j;
      }
      if (k < 70) {
        if (!lattice_ops)
          continue;
        static const char *ks[] = {"join", "join", "meet", "widen", "widen_thr", "narrow",
                                   "join_with", "meet_with"};
        Json j = op(ks[r.below(8)]);
        j.set("d", reg());
        j.set("a", reg());
        j.set("b", reg());
        if ((j.at("op").as_str() == "widen" || j.at("op").as_str() == "widen_thr") && r.coin()) {
          // loop-shaped widening: the second operand is the first joined with the
          // effect of one loop iteration x := x + k on it, so that the operands share
          // their other constraints and the result is a typical un-closed widening result
          j.set("step_x", iv());
          j.set("step_k", (long)(r.coin() ? r.range(1, 5) : -r.range(1, 5)));
        }
        if (j.at("op").as_str() == "widen_thr") {
          Json ts = Json::arr();
          int n = (int)r.range(0, 4);
          for (int i = 0; i < n; i++)
            ts.push(zs(cst()));
          j.set("ts", ts);
        }
        if (j.at("op").as_str() == "narrow" || j.at("op").as_str() == "meet") {
          // the second operand is derived from a copy of the first by assumes
          Json cs = Json::arr();
          int n = (int)r.range(0, 2);
          for (int i = 0; i < n; i++)
            cs.push(cond().to_json());
          j.set("cs", cs);
          j.set("derived", r.chance(3, 4));
        }
        return j;
      }
      if (k < 76) {
        Json j = op(r.coin() ? "copy" : "move");
        j.set("d", reg());
        j.set("a", reg());
        return j;
      }
      if (k < 78) {
        Json j = op(r.chance(2, 3) ? "set_top" : "set_bottom");
        j.set("r", reg());
        return j;
      }
      if (k < 82) {
        Json j = op("leq");
        j.set("a", reg());
        j.set("b", reg());
        return j;
      }
      if (k < 88) {
        if (!benign)
          continue;
        static const char *ks[] = {"normalize", "minimize", "index", "queries", "self_assign",
                                   "move_back"};
        Json j = op("benign");
        j.set("r", reg());
        j.set("k", ks[r.below(6)]);
        j.set("x", iv());
        return j;
      }
      if (k < 92) {
        if (!alias)
          continue;
        Json j = op("alias");
        j.set("r", reg());
        Json inner = gen(false, false, false);
        j.set("inner", inner);
        return j;
      }
      if (!bools)
        continue;
      if (k < 94) {
        Json j = op("bassign_c");
        j.set("r", reg());
        j.set("x", bv());
        j.set("c", cond().to_json());
        return j;
      }
      if (k < 96) {
        Json j = op("bassign_v");
        j.set("r", reg());
        j.set("x", bv());
        j.set("y", bv());
        j.set("f", r.coin());
        return j;
      }
      if (k < 98) {
        static const char *ks[] = {"and", "or", "xor"};
        Json j = op("bbinop");
        j.set("r", reg());
        j.set("k", ks[r.below(3)]);
        j.set("x", bv());
        j.set("y", bv());
        j.set("z", bv());
        return j;
      }
      Json j = op("bassume");
      j.set("r", reg());
      j.set("x", bv());
      j.set("f", r.coin());
      return j;
    }
  }
};

// ---------------------------------------------------------------------------
// interpreter of histories
// ---------------------------------------------------------------------------
struct Interp {
  Ctx &cx;
  const Case &cs;
  Stats &st;
  Outcome &out;
  std::vector<Reg> regs;
  GammaOpts gopts;
  int step = 0;
  uint64_t h = 17;
  bool check_c03 = true, check_c04 = true;
  std::string property;

  Interp(Ctx &c, const Case &k, Stats &s, Outcome &o) : cx(c), cs(k), st(s), out(o) {
    property = k.property;
  }

  void init(int nregs, uint64_t seed, bool raw) {
    Rng r(seed);
    regs.resize(nregs);
    for (auto &rg : regs) {
      rg.val = raw ? cx.di->make_raw() : cx.di->make_wrapped();
      // top: any valuation is a witness
      for (int k = 0; k < 4; k++) {
        Witness w;
        auto draw = [&]() {
          mpz_class v((long)r.range(-6, 6));
          if (g_bvw && r.chance(1, 3)) {
            mpz_class half;
            mpz_ui_pow_ui(half.get_mpz_t(), 2, g_bvw - 1);
            v = (r.coin() ? mpz_class(half - 1) : mpz_class(-half)) + v; // wraps around the signed pole
          }
          return g_bvw ? bv_wrap(v, g_bvw) : v;
        };
        for (auto &n : cx.ints)
          w.i[n] = draw();
        for (auto &n : cx.fresh)
          w.i[n] = draw();
        for (auto &n : cx.bools)
          w.b[n] = r.coin();
        rg.wit.push_back(w);
      }
      cap(rg.wit);
    }
  }

  void violation(const std::string &monitor, const std::string &item, const std::string &detail) {
    if (out.violated)
      return;
    out.violated = true;
    out.v.property = property;
    out.v.monitor = monitor;
    out.v.item = item;
    out.v.where = cs.domain + ":step" + std::to_string(step);
    out.v.detail = detail;
  }

  // C03 monitor: every witness of register ri is described by its value
  bool check_reg(int ri, const char *after) {
    if (g_bvw)
      for (auto &r2 : regs)
        for (auto &w : r2.wit)
          for (auto &kv : w.i)
            kv.second = bv_wrap(kv.second, g_bvw);
    Reg &rg = regs[ri];
    if (getenv("CRABSIM_HIST_TRACE"))
      fprintf(stderr, "hist step %ld after %s: r%d = %s (%zu witnesses)\n", step, after, ri,
              rg.val->str().c_str(), rg.wit.size());
    for (auto &w : rg.wit) {
      GammaResult g = in_gamma(*rg.val, sigma_of_witness(cx, w), gopts);
      st.inc("gamma_checks");
      if (!g.ok) {
        violation(std::string("witness_lost_after_") + after, g.item,
                  g.detail + " ; value=" + rg.val->str());
        return false;
      }
    }
    if (rg.wit.empty())
      st.inc("regs_without_witness");
    return true;
  }

  lin_cst_sys_t sys_of(const Json &cs_json) {
    lin_cst_sys_t sys;
    for (auto &jc : cs_json.a)
      sys += to_lin_cst(LinCst::from_json(jc), cx.vars);
    return sys;
  }
  static void filter(std::vector<Witness> &w, const Json &cs_json) {
    std::vector<Witness> k;
    for (auto &x : w) {
      bool ok = true;
      for (auto &jc : cs_json.a)
        if (eval_cst(LinCst::from_json(jc), x) != 1)
          ok = false;
      if (ok)
        k.push_back(x);
    }
    w = k;
  }

  // apply one operation. `only_abs` is used for alias mutations (the mirror of
  // the mutated copy is not needed).
  bool apply(const Json &op, bool top_level = true) {
    std::string o = op.at("op").as_str();
    st.inc("op_" + o);
    auto R = [&](const char *k) -> Reg & {
      return regs[(size_t)op.at(k).as_int() % regs.size()];
    };
    auto RI = [&](const char *k) { return (int)((size_t)op.at(k).as_int() % regs.size()); };
    if (o == "assign") {
      Reg &rg = R("r");
      LinExp e = LinExp::from_json(op.at("e"));
      std::string x = op.at("x").as_str();
      rg.val->assign(cx.v(x), to_lin_exp(e, cx.vars));
      std::vector<Witness> nw;
      for (auto w : rg.wit) {
        mpz_class v;
        if (eval_exp(e, w, v) && mpz_sizeinbase(v.get_mpz_t(), 2) <= 100) {
          w.i[x] = v;
          nw.push_back(w);
        }
      }
      rg.wit = nw;
      return check_reg(RI("r"), "assign");
    }
    if (o == "binop") {
      Reg &rg = R("r");
      std::string k = op.at("k").as_str(), x = op.at("x").as_str(), y = op.at("y").as_str();
      bool has_z = op.has("z");
      crab::domains::arith_operation_t ao;
      crab::domains::bitwise_operation_t bo;
      mpz_class n = has_z ? mpz_class(0) : mpz_class(op.at("n").as_str("0"));
      if (arith_op(k, ao)) {
        if (has_z)
          rg.val->apply(ao, cx.v(x), cx.v(y), cx.v(op.at("z").as_str()));
        else
          rg.val->apply(ao, cx.v(x), cx.v(y), to_num(n));
      } else if (bitwise_op(k, bo)) {
        if (has_z)
          rg.val->apply(bo, cx.v(x), cx.v(y), cx.v(op.at("z").as_str()));
        else
          rg.val->apply(bo, cx.v(x), cx.v(y), to_num(n));
      } else
        return true;
      std::vector<Witness> nw;
      for (auto w : rg.wit) {
        mpz_class a = w.i[y], b = has_z ? w.i[op.at("z").as_str()] : n, res;
        if (g_bvw ? concrete_binop_bv(k, a, b, !has_z, res) : concrete_binop(k, a, b, res)) {
          w.i[x] = res;
          nw.push_back(w);
        }
      }
      rg.wit = nw;
      return check_reg(RI("r"), ("binop_" + k).c_str());
    }
    if (o == "assume") {
      Reg &rg = R("r");
      rg.val->add_constraints(sys_of(op.at("cs")));
      filter(rg.wit, op.at("cs"));
      return check_reg(RI("r"), "assume");
    }
    if (o == "assume_rel") {
      Reg &rg = R("r");
      std::string x = op.at("x").as_str();
      LinCst c;
      long kind = (long)op.at("kind").as_int() % 4, d = (long)op.at("d").as_int();
      mpz_class cf = mpz_class(op.at("c").as_str("1"));
      if (cf == 0)
        cf = 1;
      LinExp e = LinExp::var(x, cf);
      if (op.has("y") && op.at("y").as_str() != x)
        e.add_term(op.at("y").as_str(), -1);
      mpz_class base = 0;
      if (!rg.wit.empty()) {
        const Witness &w = rg.wit[(size_t)op.at("w").as_int() % rg.wit.size()];
        eval_exp(e, w, base);
      }
      // e (kind) base +- d, satisfied by the chosen witness
      switch (kind) {
      case 0: // e <= base + d
        c.kind = LinCst::LEQ;
        e.cst = -(base + d);
        break;
      case 1: { // e >= base - d   <=>   -e + (base - d) <= 0
        c.kind = LinCst::LEQ;
        LinExp m;
        for (auto &t : e.terms)
          m.terms.push_back({t.first, -t.second});
        m.cst = base - d;
        e = m;
        break;
      }
      case 2: // e == base
        c.kind = LinCst::EQ;
        e.cst = -base;
        break;
      default: // e != base + d + 1   (strictly different from the witness)
        c.kind = LinCst::NEQ;
        e.cst = -(base + d + 1);
        break;
      }
      c.e = e;
      Json cs = Json::arr();
      cs.push(c.to_json());
      rg.val->add_constraints(sys_of(cs));
      filter(rg.wit, cs);
      return check_reg(RI("r"), "assume");
    }
    if (o == "select") {
      Reg &rg = R("r");
      LinCst c = LinCst::from_json(op.at("c"));
      LinExp e1 = LinExp::from_json(op.at("e1")), e2 = LinExp::from_json(op.at("e2"));
      std::string x = op.at("x").as_str();
      rg.val->select(cx.v(x), to_lin_cst(c, cx.vars), to_lin_exp(e1, cx.vars),
                     to_lin_exp(e2, cx.vars));
      std::vector<Witness> nw;
      for (auto w : rg.wit) {
        int t = eval_cst(c, w);
        mpz_class v;
        if (t >= 0 && eval_exp(t ? e1 : e2, w, v) && mpz_sizeinbase(v.get_mpz_t(), 2) <= 100) {
          w.i[x] = v;
          nw.push_back(w);
        }
      }
      rg.wit = nw;
      return check_reg(RI("r"), "select");
    }
    if (o == "forget" || o == "project") {
      Reg &rg = R("r");
      std::vector<var_t> vs;
      std::set<std::string> names;
      for (auto &x : op.at("vs").a) {
        if (names.insert(x.as_str()).second)
          vs.push_back(cx.v(x.as_str()));
      }
      std::set<std::string> forgotten;
      if (o == "forget") {
        if (op.at("many").as_bool())
          rg.val->forget(vs);
        else
          for (auto &v : vs)
            rg.val->forget(v);
        forgotten = names;
      } else {
        rg.val->project(vs);
        for (auto &n : cx.ints)
          if (!names.count(n))
            forgotten.insert(n);
        for (auto &n : cx.fresh)
          forgotten.insert(n);
        for (auto &n : cx.bools)
          forgotten.insert(n);
      }
      // forgotten variables may take any value: keep the originals and add variants
      std::vector<Witness> nw = rg.wit;
      int k = 0;
      for (auto w : rg.wit) {
        for (auto &n : forgotten) {
          if (w.i.count(n))
            w.i[n] = w.i[n] + (k % 2 ? 7 : -13);
          else if (w.b.count(n))
            w.b[n] = !w.b[n];
        }
        k++;
        nw.push_back(w);
      }
      rg.wit = nw;
      cap(rg.wit);
      return check_reg(RI("r"), o.c_str());
    }
    if (o == "rename" || o == "expand") {
      Reg &rg = R("r");
      std::string x = op.at("x").as_str(), t = op.at("t").as_str();
      // the target must not occur in the value: forget it first
      rg.val->forget(cx.v(t));
      if (o == "rename") {
        rg.val->rename({cx.v(x)}, {cx.v(t)});
        // x is unconstrained afterwards, t has x's old value
        std::vector<Witness> nw;
        for (auto w : rg.wit) {
          w.i[t] = w.i[x];
          nw.push_back(w);
          w.i[x] = w.i[x] + 5;
          nw.push_back(w);
        }
        rg.wit = nw;
      } else {
        rg.val->expand(cx.v(x), cx.v(t));
        for (auto &w : rg.wit)
          w.i[t] = w.i[x];
      }
      cap(rg.wit);
      return check_reg(RI("r"), o.c_str());
    }
    if (o == "join" || o == "widen" || o == "widen_thr" || o == "join_with") {
      int d = RI("d"), a = RI("a"), b = RI("b");
      std::vector<Witness> nw = regs[a].wit;
      AbsVal::P stepped;
      if (op.at("step_x").kind == Json::STR && (o == "widen" || o == "widen_thr")) {
        std::string sx = op.at("step_x").as_str();
        long sk = (long)op.at("step_k").as_int(1);
        stepped = regs[a].val->clone();
        std::vector<Witness> sw = regs[a].wit;
        if (op.at("step_guard").kind == Json::ARR) { // the loop guard
          stepped->add_constraints(sys_of(op.at("step_guard")));
          filter(sw, op.at("step_guard"));
        }
        stepped->assign(cx.v(sx), lin_exp_t(cx.v(sx)) + number_t(sk));
        stepped = regs[a].val->join(*stepped);
        for (auto w : sw) {
          w.i[sx] += sk;
          nw.push_back(w);
        }
      } else
        nw.insert(nw.end(), regs[b].wit.begin(), regs[b].wit.end());
      const AbsVal &rhs_b = stepped ? *stepped : *regs[b].val;
      AbsVal::P res;
      if (o == "join")
        res = regs[a].val->join(*regs[b].val);
      else if (o == "join_with") {
        res = regs[a].val->clone();
        res->join_with(*regs[b].val);
      } else if (o == "widen")
        res = regs[a].val->widen(rhs_b);
      else {
        crab::thresholds<number_t> ts;
        for (auto &t : op.at("ts").a)
          ts.add(ikos::bound<number_t>(to_num(mpz_class(t.as_str("0")))));
        res = regs[a].val->widen_thresholds(rhs_b, ts);
      }
      if (getenv("CRABSIM_EXPLORE_LATTICE")) {
        // exploratory (not part of any registered check): the fixpoint engines detect
        // stabilisation with `new <= old`; they rely on both operands of a join or
        // widening being below the result *according to the domain's own test*
        AbsVal::P la = regs[a].val->clone(), lb = rhs_b.clone();
        bool a_ok = la->leq(*res), b_ok = lb->leq(*res);
        if (!a_ok || !b_ok) {
          st.inc("explore_operand_not_leq_result");
          violation(std::string("explore_operand_not_leq_result_of_") + o, a_ok ? "right" : "left",
                    "a=" + la->str() + " b=" + lb->str() + " result=" + res->str());
          return false;
        }
      }
      regs[d].val = std::move(res);
      regs[d].wit = nw;
      cap(regs[d].wit);
      return check_reg(d, o.c_str());
    }
    if (o == "meet" || o == "meet_with" || o == "narrow") {
      int d = RI("d"), a = RI("a"), b = RI("b");
      AbsVal::P rhs;
      std::vector<Witness> rw;
      bool derived = op.at("derived").as_bool() || o == "narrow";
      if (derived) {
        // second operand: a copy of the first, restricted by assumes (a decreasing pair)
        rhs = regs[a].val->clone();
        rhs->add_constraints(sys_of(op.at("cs")));
        rw = regs[a].wit;
        filter(rw, op.at("cs"));
      } else {
        rhs = regs[b].val->clone();
        rw = regs[b].wit;
      }
      std::vector<Witness> nw;
      AbsVal::P res;
      if (o == "narrow") {
        res = regs[a].val->narrow(*rhs);
        nw = rw; // narrowing of a decreasing pair keeps every state of its second argument
      } else {
        if (o == "meet")
          res = regs[a].val->meet(*rhs);
        else {
          res = regs[a].val->clone();
          res->meet_with(*rhs);
        }
        for (auto &w : regs[a].wit)
          if (std::find(rw.begin(), rw.end(), w) != rw.end())
            nw.push_back(w);
        if (!nw.empty())
          st.inc("meet_with_common_witness");
      }
      regs[d].val = std::move(res);
      regs[d].wit = nw;
      return check_reg(d, o.c_str());
    }
    if (o == "copy" || o == "move") {
      int d = RI("d"), a = RI("a");
      if (d == a)
        return true;
      if (o == "copy")
        regs[d].val->copy_from(*regs[a].val);
      else {
        // move and give the source a fresh top value
        regs[d].val->move_from(*regs[a].val);
        regs[d].wit = regs[a].wit;
        regs[a].val = regs[d].val->make_top();
        return check_reg(d, "move");
      }
      regs[d].wit = regs[a].wit;
      return check_reg(d, "copy") && check_reg(a, "copy");
    }
    if (o == "set_top" || o == "set_bottom") {
      Reg &rg = R("r");
      if (o == "set_top") {
        rg.val->set_to_top();
        if (!rg.val->is_top() || rg.val->is_bottom())
          violation("set_to_top", "is_top", "is_top() false (or is_bottom() true) after set_to_top");
        // witnesses stay valid
      } else {
        rg.val->set_to_bottom();
        if (!rg.val->is_bottom())
          violation("set_to_bottom", "is_bottom", "is_bottom() false after set_to_bottom");
        rg.wit.clear();
      }
      return !out.violated && check_reg(RI("r"), o.c_str());
    }
    if (o == "leq") {
      int a = RI("a"), b = RI("b");
      bool yes = regs[a].val->leq(*regs[b].val);
      st.inc(yes ? "leq_yes" : "leq_no");
      if (yes) {
        for (auto &w : regs[a].wit) {
          GammaResult g = in_gamma(*regs[b].val, sigma_of_witness(cx, w), gopts);
          if (!g.ok) {
            violation("leq_yes_but_state_not_in_rhs", g.item,
                      g.detail + " ; lhs=" + regs[a].val->str() + " rhs=" + regs[b].val->str());
            return false;
          }
        }
      }
      // mandated answers
      AbsVal::P c = regs[a].val->clone();
      if (!regs[a].val->leq(*c) || !c->leq(*regs[a].val)) {
        violation("leq_reflexive", "copy", "a <= copy(a) answered no; a=" + regs[a].val->str());
        return false;
      }
      AbsVal::P bot = regs[a].val->make_bottom(), top = regs[a].val->make_top();
      if (!bot->leq(*regs[a].val)) {
        violation("leq_bottom_left", "bottom", "bottom <= a answered no; a=" + regs[a].val->str());
        return false;
      }
      if (!regs[a].val->leq(*top)) {
        violation("leq_top_right", "top", "a <= top answered no; a=" + regs[a].val->str());
        return false;
      }
      if (!bot->is_bottom() || !top->is_top() || top->is_bottom()) {
        violation("make_bottom_top", "is_bottom_is_top",
                  "make_bottom()/make_top() disagree with is_bottom()/is_top()");
        return false;
      }
      return true;
    }
    if (o == "spread") {
      // r := r join shift(r, x, m) join ... join shift(r, x, k*m): the values of x
      // form an arithmetic progression (several disjuncts / a congruence class)
      Reg &rg = R("r");
      std::string x = op.at("x").as_str();
      mpz_class m(op.at("m").as_str("1"));
      long k = 1 + (long)op.at("k").as_int() % 3;
      AbsVal::P acc = rg.val->clone();
      std::vector<Witness> nw = rg.wit;
      for (long i = 1; i <= k; i++) {
        AbsVal::P t = rg.val->clone();
        lin_exp_t e = lin_exp_t(cx.v(x)) + to_num(mpz_class(m * i));
        t->assign(cx.v(x), e);
        acc = acc->join(*t);
        for (auto w : rg.wit) {
          w.i[x] += m * i;
          nw.push_back(w);
        }
      }
      rg.val = std::move(acc);
      rg.wit = nw;
      cap(rg.wit);
      return check_reg(RI("r"), "spread");
    }
    if (o == "assume_point") {
      // exclude exactly the value a live witness has for x: x != v, x < v or x > v
      Reg &rg = R("r");
      if (rg.wit.empty())
        return true;
      std::string x = op.at("x").as_str();
      const Witness &w = rg.wit[(size_t)op.at("w").as_int() % rg.wit.size()];
      auto it = w.i.find(x);
      if (it == w.i.end())
        return true;
      LinCst c;
      long kind = (long)op.at("kind").as_int() % 3;
      if (kind == 0) { // x - v != 0
        c.kind = LinCst::NEQ;
        c.e = LinExp::var(x);
        c.e.cst = -it->second;
      } else if (kind == 1) { // x - v < 0
        c.kind = LinCst::LT;
        c.e = LinExp::var(x);
        c.e.cst = -it->second;
      } else { // v - x < 0
        c.kind = LinCst::LT;
        c.e = LinExp::var(x, -1);
        c.e.cst = it->second;
      }
      Json cs = Json::arr();
      cs.push(c.to_json());
      rg.val->add_constraints(sys_of(cs));
      filter(rg.wit, cs);
      return check_reg(RI("r"), "assume");
    }
    if (o == "leq_spread") {
      // b := shift(a, x, -m) join shift(a, x, +m) usually does not contain a itself:
      // a yes answer of a <= b is judged on the witnesses of a
      int a = RI("a");
      std::string x = op.at("x").as_str();
      mpz_class m(op.at("m").as_str("1"));
      AbsVal::P lo = regs[a].val->clone(), hi = regs[a].val->clone();
      lo->assign(cx.v(x), lin_exp_t(cx.v(x)) - to_num(m));
      hi->assign(cx.v(x), lin_exp_t(cx.v(x)) + to_num(m));
      AbsVal::P b = lo->join(*hi);
      bool yes = regs[a].val->leq(*b);
      st.inc(yes ? "leq_spread_yes" : "leq_spread_no");
      if (yes) {
        for (auto &ww : regs[a].wit) {
          GammaResult g = in_gamma(*b, sigma_of_witness(cx, ww), gopts);
          if (!g.ok) {
            violation("leq_yes_but_state_not_in_rhs", g.item,
                      g.detail + " ; lhs=" + regs[a].val->str() + " rhs=" + b->str());
            return false;
          }
        }
      }
      return true;
    }
    if (o == "leq_shrunk") {
      // a <= (a with one more constraint that excludes a witness of a): a yes
      // answer loses that witness. The constraint is built at run time from a
      // live witness w: e <= e(w) - d with e in {x, -x, x-y, y-x, x+y, -x-y}.
      int a = RI("a");
      if (regs[a].wit.empty())
        return true;
      const Witness &w = regs[a].wit[(size_t)op.at("w").as_int() % regs[a].wit.size()];
      std::string x = op.at("x").as_str(), y = op.at("y").as_str();
      long form = (long)op.at("form").as_int() % 6, d = 1 + (long)op.at("d").as_int() % 3;
      LinExp e;
      switch (form) {
      case 0:
        e.add_term(x, 1);
        break;
      case 1:
        e.add_term(x, -1);
        break;
      case 2:
        e.add_term(x, 1);
        e.add_term(y, -1);
        break;
      case 3:
        e.add_term(y, 1);
        e.add_term(x, -1);
        break;
      case 4:
        e.add_term(x, 1);
        e.add_term(y, 1);
        break;
      default:
        e.add_term(x, -1);
        e.add_term(y, -1);
        break;
      }
      if (e.terms.empty())
        e.add_term(x, 1);
      mpz_class base = 0;
      if (!eval_exp(e, w, base))
        return true;
      LinCst c;
      c.kind = LinCst::LEQ;
      e.cst = -(base - d); // e - (e(w) - d) <= 0 is false at w
      c.e = e;
      Json cs = Json::arr();
      cs.push(c.to_json());
      AbsVal::P b = regs[a].val->clone();
      b->add_constraints(sys_of(cs));
      bool yes = regs[a].val->leq(*b);
      st.inc(yes ? "leq_shrunk_yes" : "leq_shrunk_no");
      if (yes) {
        for (auto &ww : regs[a].wit) {
          GammaResult g = in_gamma(*b, sigma_of_witness(cx, ww), gopts);
          if (!g.ok) {
            violation("leq_yes_but_state_not_in_rhs", g.item,
                      g.detail + " ; lhs=" + regs[a].val->str() + " rhs=" + b->str());
            return false;
          }
        }
      }
      if (!b->leq(*regs[a].val)) {
        // adding a constraint can only shrink: (a + c) <= a must hold. This is a
        // completeness statement, not required by the property: only counted.
        st.inc("leq_shrunk_not_below_original");
      }
      return true;
    }
    if (o == "big_probe") {
      // DefaultParams graphs (raw int64 weights) document that DBM *operations* may
      // overflow, but every conversion of a number into a weight is checked. The probe
      // applies one operation whose only hazard is that conversion to a fresh top value
      // and judges the result with the queries that do not compute sums.
      AbsVal::P t = regs[0].val->make_top();
      std::string x = op.at("x").as_str(), y = op.at("y").as_str(), z = op.at("z").as_str();
      mpz_class K(op.at("n").as_str("0")), a(op.at("a").as_str("1")), b(op.at("b").as_str("1"));
      Witness w;
      long kind = (long)op.at("kind").as_int() % 3;
      if (kind == 1 && (x == y || x == z || y == z))
        kind = 2;
      if (kind == 2 && x == y)
        return true;
      // keep every *sum or difference of two bounds* inside int64 (an overflow there is
      // the documented limitation), so that the conversion check is the only hazard
      mpz_class two62, two63;
      mpz_ui_pow_ui(two62.get_mpz_t(), 2, 62);
      mpz_ui_pow_ui(two63.get_mpz_t(), 2, 63);
      if (kind == 0 && K == -two63)
        return true; // negating INT64_MIN is a DBM operation, not a conversion
      if (kind == 1 && (a <= 0 || b <= 0 || a * b >= two63 - two62 / 1000))
        return true;
      if (kind == 2 && abs(K) >= two62 - 8)
        return true;
      if (kind == 0) {
        t->assign(cx.v(x), lin_exp_t(to_num(K)));
        w.i[x] = K;
      } else if (kind == 1) {
        t->assign(cx.v(y), lin_exp_t(to_num(a)));
        t->assign(cx.v(z), lin_exp_t(to_num(b)));
        t->apply(crab::domains::OP_MULTIPLICATION, cx.v(x), cx.v(y), cx.v(z));
        w.i[y] = a;
        w.i[z] = b;
        w.i[x] = a * b;
      } else {
        t->assign(cx.v(y), lin_exp_t(to_num(K)));
        t->apply(crab::domains::OP_OR, cx.v(x), cx.v(y), cx.v(y)); // x := y | y = y
        w.i[y] = K;
        w.i[x] = K;
      }
      GammaOpts go;
      go.probes = false;
      go.point_meet = false;
      go.export_disj = false;
      GammaResult g = in_gamma(*t, sigma_of_witness(cx, w), go);
      st.inc("big_probes");
      if (!g.ok) {
        violation("witness_lost_after_big_probe", g.item, g.detail + " ; value=" + t->str());
        return false;
      }
      return true;
    }
    if (o == "partition") {
      Reg &rg = R("r");
      rg.val->intrinsic(op.at("end").as_bool() ? "value_partition_end" : "value_partition_start",
                        {cx.v(op.at("x").as_str())});
      return check_reg(RI("r"), "partition");
    }
    if (o == "benign") {
      int ri = RI("r");
      Reg &rg = regs[ri];
      std::string k = op.at("k").as_str();
      st.inc("fault_f4_" + k);
      if (k == "normalize")
        rg.val->normalize();
      else if (k == "minimize")
        rg.val->minimize();
      else if (k == "index")
        (void)rg.val->index(cx.v(op.at("x").as_str()));
      else if (k == "queries") {
        (void)rg.val->is_bottom();
        (void)rg.val->is_top();
        (void)rg.val->to_lin();
        try {
          (void)rg.val->to_disj();
        } catch (const FatalError &) {
          st.inc("query_refused_to_disj"); // some domains refuse this query
        }
        (void)rg.val->str();
        (void)rg.val->at(cx.v(op.at("x").as_str()));
      } else if (k == "self_assign")
        rg.val->copy_from(*rg.val);
      else if (k == "move_back") {
        AbsVal::P tmp = rg.val->make_top();
        tmp->move_from(*rg.val);
        rg.val->move_from(*tmp);
      }
      return check_reg(ri, ("benign_" + k).c_str());
    }
    if (o == "alias") {
      // F3: copy the register, mutate the copy, drop it: the original's meaning
      // must not change
      int ri = RI("r");
      st.inc("fault_f3_alias_mutation");
      std::string before = snapshot(ri);
      {
        Reg saved;
        saved.val = regs[ri].val->clone();
        saved.wit = regs[ri].wit;
        std::swap(saved.val, regs[ri].val); // regs[ri] now holds the COPY; saved holds the original
        Json inner = op.at("inner");
        // force the inner operation onto this register
        for (const char *key : {"r", "d", "a", "b"})
          if (inner.has(key))
            inner.set(key, ri);
        Outcome dummy;
        {
          // mutate the copy; violations inside the alias mutation are still violations of C03
          apply(inner, false);
        }
        std::swap(saved.val, regs[ri].val); // restore the original object
        regs[ri].wit = saved.wit;
      }
      std::string after = snapshot(ri);
      if (before != after) {
        violation("alias_mutation_changed_original", "snapshot",
                  "before=" + before + " after=" + after);
        return false;
      }
      return check_reg(ri, "alias");
    }
    if (o == "bassign_c") {
      Reg &rg = R("r");
      LinCst c = LinCst::from_json(op.at("c"));
      std::string x = op.at("x").as_str();
      rg.val->assign_bool_cst(cx.v(x), to_lin_cst(c, cx.vars));
      std::vector<Witness> nw;
      for (auto w : rg.wit) {
        int t = eval_cst(c, w);
        if (t >= 0) {
          w.b[x] = t;
          nw.push_back(w);
        }
      }
      rg.wit = nw;
      return check_reg(RI("r"), "bassign_c");
    }
    if (o == "bassign_v") {
      Reg &rg = R("r");
      std::string x = op.at("x").as_str(), y = op.at("y").as_str();
      bool f = op.at("f").as_bool();
      rg.val->assign_bool_var(cx.v(x), cx.v(y), f);
      for (auto &w : rg.wit)
        w.b[x] = f ? !w.b[y] : w.b[y];
      return check_reg(RI("r"), "bassign_v");
    }
    if (o == "bbinop") {
      Reg &rg = R("r");
      std::string k = op.at("k").as_str(), x = op.at("x").as_str(), y = op.at("y").as_str(),
                  z = op.at("z").as_str();
      using namespace crab::domains;
      bool_operation_t bo = k == "and" ? OP_BAND : k == "or" ? OP_BOR : OP_BXOR;
      rg.val->apply_binary_bool(bo, cx.v(x), cx.v(y), cx.v(z));
      for (auto &w : rg.wit) {
        bool a = w.b[y], b = w.b[z];
        w.b[x] = k == "and" ? (a && b) : k == "or" ? (a || b) : (a != b);
      }
      return check_reg(RI("r"), "bbinop");
    }
    if (o == "bassume") {
      Reg &rg = R("r");
      std::string x = op.at("x").as_str();
      bool f = op.at("f").as_bool();
      rg.val->assume_bool(cx.v(x), f);
      std::vector<Witness> nw;
      for (auto &w : rg.wit)
        if (w.b[x] != f)
          nw.push_back(w);
      rg.wit = nw;
      return check_reg(RI("r"), "bassume");
    }
    return true;
  }

  // observable meaning of a register through const queries only
  std::string snapshot(int ri) { return snapshot_of(*regs[ri].val); }
  std::string snapshot_of(const AbsVal &v) {
    std::string s = v.is_bottom() ? "B" : (v.is_top() ? "T" : "N");
    if (v.is_bottom())
      return s;
    // a query that crab refuses (CRAB_ERROR) is recorded as such, not propagated
    try {
      for (auto &n : cx.ints) {
        crab::crab_string_os os;
        os << v.at(cx.v(n));
        s += " " + n + "=" + os.str();
      }
    } catch (const FatalError &) {
      s += " at:refused";
    }
    std::vector<std::string> cs;
    try {
      for (auto const &c : v.to_lin()) {
        crab::crab_string_os os;
        os << c;
        cs.push_back(os.str());
      }
    } catch (const FatalError &) {
      cs.push_back("export:refused");
    }
    std::sort(cs.begin(), cs.end());
    for (auto &c : cs)
      s += " ; " + c;
    return s;
  }

  void run_ops(const Json &ops) {
    for (auto &op : ops.a) {
      step++;
      if (!apply(op))
        break;
      if (out.violated)
        break;
      h = hash_combine(h, hash_str(op.at("op").as_str()));
    }
    for (size_t i = 0; i < regs.size(); i++)
      h = hash_combine(h, hash_str(snapshot((int)i)));
  }
};

// ---------------------------------------------------------------------------
// generation and checks
// ---------------------------------------------------------------------------
Case gen_hist(const std::string &prop, Rng &r, const Tier &t, const std::vector<std::string> &doms,
              bool benign, bool alias) {
  Case c;
  c.property = prop;
  c.domain = doms[r.below(doms.size())];
  const DomainInfo *di = find_domain(c.domain);
  int nregs = (int)r.range(2, 5);
  bool large = !(di->caps & CAP_INT64) && r.chance(1, 5);
  bool bools = (di->caps & CAP_BOOL) ? true : r.chance(1, 6);
  OpGen g(r, nregs, large, bools);
  g.partition = (di->caps & CAP_PARTITION) != 0;
  g.big_probes = (di->caps & CAP_INT64) != 0;
  if (di->caps & CAP_BV) {
    static const unsigned ws[] = {4, 8, 8, 8, 16, 32, 32, 64};
    g.bvw = ws[r.below(8)];
    g.large = false;
    c.params.set("bv_width", (long)g.bvw);
  }
  Json ops = Json::arr();
  int n = (int)r.range(5, t.thorough ? 60 : 35);
  // loop template (1 history in 4): a register is given the typical invariant of a
  // counting loop (a bound on y, a difference x - y <= c and a bound on x implied-ish
  // by both) and is then widened with one more iteration of x := x + k; the result is
  // the classic un-closed widening result (the bound of x is only implied through y)
  int tmpl_at = r.chance(1, 4) ? (int)r.below((uint64_t)n) : -1;
  for (int i = 0; i < n; i++) {
    if (i == tmpl_at) {
      long rg = (long)r.below((uint64_t)nregs), rd = (long)r.below((uint64_t)nregs);
      int xi = (int)r.below(4), yi = (xi + 1 + (int)r.below(3)) % 4;
      std::string x = "v" + std::to_string(xi), y = "v" + std::to_string(yi);
      long up = r.coin() ? 1 : -1; // upper-bound form or its mirror image
      long K = (long)r.range(-5, 20), cc = (long)r.range(-3, 3), m = K + cc - (long)r.range(1, 6);
      auto cst = [&](long c0, const std::string &a, long ca, const std::string &b, long cb) {
        LinCst lc;
        lc.kind = LinCst::LEQ;
        lc.e.cst = mpz_class(c0);
        lc.e.add_term(a, mpz_class(ca));
        if (!b.empty())
          lc.e.add_term(b, mpz_class(cb));
        return lc.to_json();
      };
      Json a1 = Json::obj();
      a1.set("op", "assume");
      a1.set("r", rg);
      Json cs = Json::arr();
      cs.push(cst(-K, y, up, "", 0));     // up*y <= K
      cs.push(cst(-cc, x, up, y, -up));   // up*(x - y) <= cc
      cs.push(cst(-m, x, up, "", 0));     // up*x <= m
      a1.set("cs", cs);
      ops.push(a1);
      Json w = Json::obj();
      w.set("op", r.chance(3, 4) ? "widen" : "widen_thr");
      w.set("d", rd);
      w.set("a", rg);
      w.set("b", rg);
      w.set("step_x", x);
      long sk = (long)r.range(1, 4);
      w.set("step_k", up * sk);
      if (r.chance(3, 4)) { // guarded iteration: the difference constraint survives it
        Json g = Json::arr();
        g.push(cst(-(cc - sk), x, up, y, -up)); // up*(x - y) <= cc - sk
        w.set("step_guard", g);
      }
      if (w.at("op").as_str() == "widen_thr")
        w.set("ts", Json::arr());
      ops.push(w);
    }
    ops.push(g.gen(true, benign, alias));
  }
  Json h = Json::obj();
  h.set("nregs", nregs);
  h.set("ops", ops);
  c.hist = h;
  if ((di->caps & CAP_NTOW) && r.chance(1, 4))
    c.params.set("ntow_per_mille", (long)(r.coin() ? 20 : 200));
  random_knobs(r, c.domain, c.params);
  c.exec_seed = r.next() & 0x3fffffffffffffffULL;
  return c;
}

Outcome check_hist(const Case &c, Stats &st, bool raw) {
  Outcome out;
  apply_knobs(c);
  const DomainInfo *di = find_domain(c.domain);
  if (!di) {
    out.refusal = "unknown domain";
    return out;
  }
  g_bvw = (di->caps & CAP_BV) ? (unsigned)c.pint("bv_width", 8) : 0;
  g_bv_strict = c.pbool("bv_strict");
  GuardResult gr = guarded(5000000, [&]() {
    Ctx cx(g_bvw ? g_bvw : 32);
    cx.di = di;
    Interp in(cx, c, st, out);
    in.gopts.bv = g_bvw != 0;
    in.init((int)c.hist.at("nregs").as_int(2), c.exec_seed, raw);
    in.run_ops(c.hist.at("ops"));
    out.hash = in.h;
    st.inc("history_ops", in.step);
  });
  if (!gr.ok && !out.violated) {
    out.refusal = gr.msg;
    st.inc("refused");
  }
  st.inc("fault_f5_ntow_fired", hooks().unusual_fired);
  st.inc("gamma_refused_queries", hooks().refused_queries);
  st.inc("gamma_tag_checks", hooks().tag_checks);
  st.result_hashes.push_back(out.hash);
  st.inc("histories");
  return out;
}

std::vector<std::string> hist_domains(const Tier &t) {
  // the thorough tier also runs the scalar histories on the array domains
  // (their lattice operations wrap the base domain's in non-trivial ways)
  // ... and on the machine-integer domains (BV profile of the mirror)
  // ... and on the region domains (scalar operations go through the ghost-variable layer)
  return domains_with(0, t.thorough ? 0 : (CAP_ARRAY | CAP_BV | CAP_REGION), !t.thorough);
}

// --- C03 / C04: the same engine; C04 histories are denser in lattice queries
PropertyRegistrar reg_c03({"C03", "sim_hist",
                           [](Rng &r, const Tier &t, const std::vector<std::string> &d) {
                             return gen_hist("C03", r, t, d, true, false);
                           },
                           [](const Case &c, Stats &st) {
                             // the inclusion-test and lattice-law monitors belong to C04
                             Outcome o = check_hist(c, st, true);
                             if (o.violated) {
                               const std::string &m = o.v.monitor;
                               if (m.compare(0, 4, "leq_") == 0 || m == "make_bottom_top" ||
                                   m == "set_to_top" || m == "set_to_bottom") {
                                 st.inc("other_property_violation_seen");
                                 o.violated = false;
                               }
                             }
                             return o;
                           },
                           hist_domains});

Case gen_c04(Rng &r, const Tier &t, const std::vector<std::string> &doms) {
  Case c = gen_hist("C04", r, t, doms, true, false);
  // insert an inclusion query after every second operation
  Json ops = Json::arr();
  int nregs = (int)c.hist.at("nregs").as_int(2);
  int k = 0;
  for (auto &op : c.hist.at("ops").a) {
    ops.push(op);
    if (++k % 2 == 0) {
      Json q = Json::obj();
      q.set("op", "leq");
      q.set("a", (long)r.below(nregs));
      q.set("b", (long)r.below(nregs));
      ops.push(q);
    } else if (r.chance(1, 4)) {
      Json q = Json::obj();
      q.set("op", "leq_spread");
      q.set("a", (long)r.below(nregs));
      q.set("x", "v" + std::to_string(r.below(N_INT)));
      q.set("m", zs(mpz_class((long)r.range(1, 5))));
      ops.push(q);
    } else if (r.chance(1, 2)) {
      Json q = Json::obj();
      q.set("op", "leq_shrunk");
      q.set("a", (long)r.below(nregs));
      q.set("x", "v" + std::to_string(r.below(N_INT)));
      q.set("y", "v" + std::to_string(r.below(N_INT)));
      q.set("form", (long)r.below(6));
      q.set("w", (long)r.below(12));
      q.set("d", (long)r.below(3));
      ops.push(q);
    }
  }
  c.hist.set("ops", ops);
  return c;
}
// C04 monitors live in the "leq", "join", "meet", "set_top/bottom" operations;
// a witness lost by an *other* operation is C03's business, so C04 only reports
// its own monitors.
Outcome check_c04(const Case &c, Stats &st) {
  Outcome o = check_hist(c, st, true);
  if (o.violated) {
    const std::string &m = o.v.monitor;
    bool mine = m.compare(0, 4, "leq_") == 0 || m == "make_bottom_top" || m == "set_to_top" ||
                m == "set_to_bottom" || m == "witness_lost_after_join" ||
                m == "witness_lost_after_join_with" || m == "witness_lost_after_meet" ||
                m == "witness_lost_after_meet_with" || m == "witness_lost_after_set_top";
    if (!mine) {
      st.inc("other_property_violation_seen");
      o.violated = false;
    }
  }
  return o;
}
PropertyRegistrar reg_c04({"C04", "sim_hist", gen_c04, check_c04, hist_domains});

// --- C13c: operation histories over the machine-integer domains with a mirror of
// two's-complement witnesses (the C03 monitors under the BV profile)
PropertyRegistrar reg_c13c({"C13c", "sim_hist",
                            [](Rng &r, const Tier &t, const std::vector<std::string> &d) {
                              Case c = gen_hist("C13", r, t, d, true, false);
                              c.params.set("part", "histories");
                              return c;
                            },
                            [](const Case &c, Stats &st) {
                              Outcome o = check_hist(c, st, true);
                              if (o.violated) {
                                const std::string &m = o.v.monitor;
                                if (m.compare(0, 4, "leq_") == 0 || m == "make_bottom_top" ||
                                    m == "set_to_top" || m == "set_to_bottom") {
                                  st.inc("other_property_violation_seen");
                                  o.violated = false;
                                }
                              }
                              return o;
                            },
                            [](const Tier &) {
                              return domains_with(CAP_BV, CAP_ARRAY | CAP_REGION, false);
                            }});

// --- C05b: widening chains become stationary; widening/narrowing keep witnesses
Case gen_c05b(Rng &r, const Tier &t, const std::vector<std::string> &doms) {
  Case c;
  c.property = "C05";
  c.domain = doms[r.below(doms.size())];
  const DomainInfo *di = find_domain(c.domain);
  bool large = !(di->caps & CAP_INT64) && r.chance(1, 5);
  OpGen g(r, 2, large, false);
  if (di->caps & CAP_BV) {
    static const unsigned ws[] = {4, 8, 8, 8, 16, 32, 32, 64};
    g.bvw = ws[r.below(8)];
    g.large = false;
    c.params.set("bv_width", (long)g.bvw);
  }
  Json prefix = Json::arr();
  int n = (int)r.range(0, 6);
  for (int i = 0; i < n; i++) {
    Json op = g.gen(false, false, false);
    op.set("r", 0);
    prefix.push(op);
  }
  // adversarial steps: each step grows register 1 (a copy of the chain value)
  Json steps = Json::arr();
  int L = t.thorough ? 400 : 160;
  // Chains in which variables tied by stable relations grow alternately (the
  // classic way a relational widening that re-closes its left operand never
  // stabilises): the prefix gives both variables finite values, every step
  // rewrites one of them in terms of the other, and x_i = w_i join step(w_i).
  bool alternating = r.chance(1, 4);
  std::string va = g.iv(), vb = g.iv();
  int nalt = (int)r.range(2, 3);
  std::vector<std::string> ring = {va, vb};
  if (nalt == 3)
    ring.push_back(g.iv());
  if (alternating) {
    for (auto &x : ring) {
      Json op = g.op("assign");
      op.set("r", 0);
      op.set("x", x);
      op.set("e", LinExp(mpz_class((long)r.range(-2, 2))).to_json());
      prefix.push(op);
    }
  }
  long c_even = (long)r.range(0, 2), c_odd = (long)r.range(c_even == 0 ? 1 : 0, 2);
  bool downwards = r.chance(1, 4);
  for (int i = 0; i < L; i++) {
    Json grow = Json::arr();
    // (random steps only interrupt the pattern early: a later one would hide a
    // divergence behind the generous bound on strict steps)
    if (alternating && (i >= 12 || !r.chance(1, 6))) {
      const std::string &dst = ring[i % ring.size()], &src = ring[(i + 1) % ring.size()];
      Json op = g.op("assign");
      LinExp e = LinExp::var(src);
      e.cst = (i % 2 == 0) ? c_even : c_odd;
      if (downwards)
        e.cst = -e.cst;
      op.set("x", dst);
      op.set("e", e.to_json());
      op.set("r", 1);
      grow.push(op);
      Json s = Json::obj();
      s.set("grow", grow);
      s.set("join_first", true);
      steps.push(s);
      continue;
    }
    int m = (int)r.range(1, 3);
    for (int k = 0; k < m; k++) {
      unsigned w = (unsigned)r.below(100);
      Json op;
      if (w < 45) { // increment / shift a variable
        op = g.op("binop");
        op.set("k", r.coin() ? "add" : "sub");
        std::string x = g.iv();
        op.set("x", x);
        op.set("y", x);
        op.set("n", zs(mpz_class((long)r.range(1, 9))));
      } else if (w < 65) { // relational rotation
        op = g.op("assign");
        op.set("x", g.iv());
        op.set("e", g.exp(2).to_json());
      } else if (w < 80) {
        op = g.op("binop");
        op.set("k", "mul");
        std::string x = g.iv();
        op.set("x", x);
        op.set("y", x);
        op.set("n", zs(mpz_class((long)r.range(-3, 3))));
      } else if (w < 90) {
        op = g.op("forget");
        Json vs = Json::arr();
        vs.push(g.iv());
        op.set("vs", vs);
        op.set("many", false);
      } else {
        op = g.op("assume");
        Json cs = Json::arr();
        cs.push(g.cond().to_json());
        op.set("cs", cs);
      }
      op.set("r", 1);
      grow.push(op);
    }
    Json s = Json::obj();
    s.set("grow", grow);
    s.set("join_first", r.coin());
    steps.push(s);
  }
  Json ts = Json::arr();
  if (r.coin()) {
    int nt = (int)r.range(0, 6);
    for (int i = 0; i < nt; i++)
      ts.push(zs(g.cst()));
    c.params.set("use_thresholds", 1);
  }
  Json h = Json::obj();
  h.set("nregs", 2);
  h.set("ops", prefix);
  h.set("steps", steps);
  h.set("ts", ts);
  c.hist = h;
  c.params.set("part", "chains");
  {
    static const long ds[] = {0, 0, 1, 2, 2, 3, 5};
    c.params.set("chain_delay", ds[r.below(7)]);
  }
  random_knobs(r, c.domain, c.params);
  c.exec_seed = r.next() & 0x3fffffffffffffffULL;
  return c;
}

long chain_bound(const DomainInfo &di, size_t nthresholds) {
  // generous per-domain bounds on the number of STRICT steps of a widening
  // chain over <= 7 variables (DESIGN.md 6 C05(b)); x10 safety factor inside
  long V = N_INT + 2 + N_BOOL;
  long T = (long)nthresholds + 3;
  if (di.caps & CAP_NONREL)
    return 10 * (2 * V * T + 2);
  // zones / octagons: a strict widening step drops at least one of the
  // <= (2V)^2 constraints of its left operand or moves one of the 2V bounds to
  // the next threshold; x3 safety factor
  if (di.caps & CAP_EXACT_EXPORT)
    return 3 * ((2 * V) * (2 * V) + 2 * V * T);
  return 5000;
}

Outcome check_c05b(const Case &c, Stats &st) {
  Outcome out;
  apply_knobs(c);
  const DomainInfo *di = find_domain(c.domain);
  if (!di) {
    out.refusal = "unknown domain";
    return out;
  }
  long strict = 0, L = 0;
  GuardResult gr = guarded(20000000, [&]() {
    g_bvw = (di->caps & CAP_BV) ? (unsigned)c.pint("bv_width", 8) : 0;
  g_bv_strict = c.pbool("bv_strict");
    Ctx cx(g_bvw ? g_bvw : 32);
    cx.di = di;
    Interp in(cx, c, st, out);
    in.property = "C05";
    in.init(2, c.exec_seed, true);
    in.run_ops(c.hist.at("ops"));
    if (out.violated)
      return;
    crab::thresholds<number_t> ts;
    size_t nts = 0;
    for (auto &t : c.hist.at("ts").a) {
      ts.add(ikos::bound<number_t>(to_num(mpz_class(t.as_str("0")))));
      nts++;
    }
    bool use_ts = c.pbool("use_thresholds");
    long chain_delay = c.pint("chain_delay", 0);
    long bound = chain_bound(*di, use_ts ? nts : 0);
    // The listed steps are applied in order; while the chain is still moving
    // at the end of the list (a strict step among the last 40) the list is
    // replayed cyclically, until the chain has been stationary for 40 steps or
    // the number of strict steps exceeds the bound.
    const std::vector<Json> &steps = c.hist.at("steps").a;
    long last_strict = 0;
    for (size_t si = 0; !steps.empty(); si++) {
      if (si >= steps.size() && L - last_strict >= 40)
        break;
      const Json &s = steps[si % steps.size()];
      L++;
      in.step++;
      // x_i: the current chain value pushed through growing operations
      in.regs[1].val = in.regs[0].val->clone();
      in.regs[1].wit = in.regs[0].wit;
      for (auto &op : s.at("grow").a) {
        if (!in.apply(op))
          return;
      }
      if (s.at("join_first").as_bool()) {
        in.regs[1].val = in.regs[0].val->join(*in.regs[1].val);
        in.regs[1].wit.insert(in.regs[1].wit.end(), in.regs[0].wit.begin(),
                              in.regs[0].wit.end());
        cap(in.regs[1].wit);
      }
      // like the fixpoint iterator, the first `delay` steps join instead of widening
      bool joining = L <= chain_delay;
      AbsVal::P next = joining ? in.regs[0].val->join(*in.regs[1].val)
                       : use_ts ? in.regs[0].val->widen_thresholds(*in.regs[1].val, ts)
                                : in.regs[0].val->widen(*in.regs[1].val);
      bool stationary = next->leq(*in.regs[0].val);
      if (!stationary && !joining) {
        strict++;
        last_strict = L;
      }
      if (getenv("CRABSIM_CHAIN_TRACE"))
        fprintf(stderr, "chain step %ld %s strict=%ld x=%s next=%s\n", L,
                joining ? "join" : "widen", strict, in.regs[1].val->str().c_str(),
                next->str().c_str());
      std::vector<Witness> nw = in.regs[0].wit;
      nw.insert(nw.end(), in.regs[1].wit.begin(), in.regs[1].wit.end());
      in.regs[0].val = std::move(next);
      in.regs[0].wit = nw;
      cap(in.regs[0].wit);
      // (the witnesses are only followed through the listed steps, not through the replays)
      if (si < steps.size() && !in.check_reg(0, use_ts ? "widening_thresholds" : "widening"))
        return;
      if (strict > bound) {
        in.violation("widening_chain_not_stationary", use_ts ? "thresholds" : "plain",
                     "the chain made " + std::to_string(strict) + " strict steps in " +
                         std::to_string(L) + " widenings (bound " + std::to_string(bound) +
                         "); current=" + in.regs[0].val->str());
        return;
      }
    }
    out.hash = hash_combine(in.h, (uint64_t)strict);
  });
  st.c["max_strict_widening_steps"] = std::max(st.c["max_strict_widening_steps"], strict);
  st.inc("widening_chain_steps", L);
  st.inc("widening_chains");
  if (!gr.ok && !out.violated) {
    if (gr.budget) {
      out.violated = true;
      out.v.property = "C05";
      out.v.monitor = "widening_chain_budget";
      out.v.item = "ticks";
      out.v.detail = "tick budget exceeded inside a widening chain";
    } else {
      out.refusal = gr.msg;
      st.inc("refused");
    }
  }
  st.result_hashes.push_back(out.hash);
  return out;
}
PropertyRegistrar reg_c05b({"C05b", "sim_hist", gen_c05b, check_c05b, hist_domains});

// --- C16: value semantics (F3), benign events (F4), wrapper refinement
Case gen_c16(Rng &r, const Tier &t, const std::vector<std::string> &doms) {
  Case c = gen_hist("C16", r, t, doms, true, true);
  c.params.set("mode", (long)r.below(3)); // 0 isolation+benign, 1 wrapper lock-step, 2 benign-vs-plain
  return c;
}

Json strip_benign(const Json &ops) {
  Json r = Json::arr();
  for (auto &op : ops.a) {
    std::string o = op.at("op").as_str();
    if (o == "benign" || o == "alias")
      continue;
    r.push(op);
  }
  return r;
}

Outcome check_c16(const Case &c, Stats &st) {
  Outcome out;
  apply_knobs(c);
  const DomainInfo *di = find_domain(c.domain);
  if (!di) {
    out.refusal = "unknown domain";
    return out;
  }
  long mode = c.pint("mode", 0);
  st.inc("c16_mode_" + std::to_string(mode));
  // The twin comparisons (modes 1 and 2) run two interpreters whose numbers of
  // NtoW::convert calls differ, so an F5 fault sequence would land at different
  // operations on the two sides and make two sound results differ: F5 is only
  // injected in mode 0.
  if (mode != 0)
    hooks().unusual_enabled = false;
  GuardResult gr = guarded(10000000, [&]() {
    g_bvw = (di->caps & CAP_BV) ? (unsigned)c.pint("bv_width", 8) : 0;
  g_bv_strict = c.pbool("bv_strict");
    Ctx cx(g_bvw ? g_bvw : 32);
    cx.di = di;
    int nregs = (int)c.hist.at("nregs").as_int(2);
    if (mode == 0) {
      // isolation of copies under alias mutations + benign events, with the C03 monitors
      Interp in(cx, c, st, out);
      in.init(nregs, c.exec_seed, true);
      // after every copy, mutate one side and compare the other's snapshot
      for (auto &op : c.hist.at("ops").a) {
        in.step++;
        std::string o = op.at("op").as_str();
        if (o == "copy") {
          int d = (int)((size_t)op.at("d").as_int() % in.regs.size());
          int a = (int)((size_t)op.at("a").as_int() % in.regs.size());
          if (!in.apply(op))
            break;
          if (d != a) {
            // The copy (made by copy assignment onto whatever d held before) must
            // behave like its source from now on: the same probing operations are
            // applied to copy-constructed clones of both and must give the same
            // results (hidden state that assignment forgot to copy shows up here).
            {
              auto probe = [&](const std::function<void(AbsVal &)> &f, const char *what) {
                AbsVal::P x = in.regs[a].val->clone(), y = in.regs[d].val->clone();
                // no F5 fault inside a twin comparison (it would hit one side only)
                bool f5 = hooks().unusual_enabled;
                hooks().unusual_enabled = false;
                f(*x);
                f(*y);
                hooks().unusual_enabled = f5;
                std::string sx = in.snapshot_of(*x), sy = in.snapshot_of(*y);
                if (sx != sy && !out.violated)
                  in.violation("copy_differs_from_source", what,
                               std::string("after ") + what + " the source gives " + sx +
                                   " but its copy gives " + sy);
              };
              for (auto &bn : cx.bools) {
                probe([&](AbsVal &v) { v.assume_bool(cx.v(bn), false); }, "assume_bool");
                probe([&](AbsVal &v) { v.assume_bool(cx.v(bn), true); }, "assume_not_bool");
              }
              probe([&](AbsVal &v) { v.normalize(); }, "normalize");
              probe([&](AbsVal &v) {
                lin_cst_sys_t sys;
                sys += lin_cst_t(lin_exp_t(cx.v("v0")) - lin_exp_t(cx.v("v1")), lin_cst_t::INEQUALITY);
                v.add_constraints(sys);
              }, "assume");
              st.inc("copy_equivalence_probes");
              if (out.violated)
                break;
            }
            std::string sa = in.snapshot(a);
            // mutate the copy d heavily; a must not move
            in.regs[d].val->forget(cx.v("v0"));
            in.regs[d].val->assign(cx.v("v1"), lin_exp_t(number_t(12345)));
            lin_cst_sys_t sys;
            sys += lin_cst_t(lin_exp_t(cx.v("v2")) - number_t(3), lin_cst_t::INEQUALITY);
            in.regs[d].val->add_constraints(sys);
            in.regs[d].val->normalize();
            for (auto &w : in.regs[d].wit) {
              w.i["v1"] = 12345;
            }
            {
              std::vector<Witness> nw;
              for (auto &w : in.regs[d].wit)
                if (w.i["v2"] <= 3)
                  nw.push_back(w);
              in.regs[d].wit = nw;
            }
            if (in.snapshot(a) != sa) {
              in.violation("copy_not_isolated", "source_changed",
                           "mutating the copy changed the source: before=" + sa +
                               " after=" + in.snapshot(a));
              break;
            }
            // and the other way round
            std::string sd = in.snapshot(d);
            AbsVal::P keep = in.regs[a].val->clone();
            in.regs[a].val->set_to_top();
            in.regs[a].val->assign(cx.v("v3"), lin_exp_t(number_t(-777)));
            if (in.snapshot(d) != sd) {
              in.violation("copy_not_isolated", "copy_changed",
                           "mutating the source changed the copy: before=" + sd +
                               " after=" + in.snapshot(d));
              break;
            }
            in.regs[a].val = std::move(keep);
            st.inc("isolation_checks");
          }
          continue;
        }
        if (!in.apply(op) || out.violated)
          break;
        // Normalisation invariance: the result of a binary lattice operation
        // (typically an un-normalised widening result) is cloned twice; one clone
        // receives an explicit normalize() or a read-only query first; then the same
        // non-widening operation is applied to both and must give the same meaning.
        if ((di->caps & CAP_EXACT_EXPORT) &&
            (o == "widen" || o == "widen_thr" || o == "narrow" || o == "join" || o == "meet" ||
             o == "join_with" || o == "meet_with")) {
          int d = (int)((size_t)op.at("d").as_int() % in.regs.size());
          if (!in.regs[d].val->is_bottom()) {
            auto nprobe = [&](int benign, const std::function<void(AbsVal &)> &f,
                              const std::string &what) {
              if (out.violated)
                return;
              AbsVal::P x = in.regs[d].val->clone(), y = in.regs[d].val->clone();
              bool f5 = hooks().unusual_enabled;
              hooks().unusual_enabled = false;
              if (benign == 0)
                y->normalize();
              else if (benign == 1)
                (void)y->at(cx.v(cx.ints[0]));
              else
                (void)y->to_lin();
              f(*x);
              f(*y);
              hooks().unusual_enabled = f5;
              std::string sx = in.snapshot_of(*x), sy = in.snapshot_of(*y);
              if (sx != sy)
                in.violation("benign_event_changed_later_result", what,
                             "after " + o + ": " + what + " gives " + sx + " but " +
                                 (benign == 0 ? "normalize()" : benign == 1 ? "operator[]" : "to_linear_constraint_system()") +
                                 " followed by " + what + " gives " + sy);
            };
            int benign = (int)(in.step % 3);
            for (auto &n : cx.ints)
              nprobe(benign, [&](AbsVal &v) { v.forget(cx.v(n)); }, "forget(" + n + ")");
            if (cx.ints.size() >= 2) {
              nprobe(benign, [&](AbsVal &v) { v.assign(cx.v(cx.ints[0]), lin_exp_t(cx.v(cx.ints[1])) + number_t(1)); },
                     "assign");
              nprobe(benign, [&](AbsVal &v) {
                lin_cst_sys_t sys;
                sys += lin_cst_t(lin_exp_t(cx.v(cx.ints[0])) - lin_exp_t(cx.v(cx.ints[1])), lin_cst_t::INEQUALITY);
                v.add_constraints(sys);
              }, "assume");
              nprobe(benign, [&](AbsVal &v) { v.project({cx.v(cx.ints[0])}); }, "project");
            }
            st.inc("normalisation_invariance_probes");
            if (out.violated)
              break;
          }
        }
      }
      out.hash = in.h;
      // only C16's own monitors are reported here (witness losses are C03's)
      if (out.violated && out.v.monitor != "copy_not_isolated" &&
          out.v.monitor != "copy_differs_from_source" &&
          out.v.monitor != "benign_event_changed_later_result" &&
          out.v.monitor != "alias_mutation_changed_original" &&
          out.v.monitor.compare(0, 27, "witness_lost_after_benign_") != 0) {
        st.inc("other_property_violation_seen");
        out.violated = false;
      }
    } else if (mode == 1) {
      // wrapper refinement: same history on D and on abstract_domain_ref(D), in lock-step
      Outcome o1, o2;
      Interp a(cx, c, st, o1), b(cx, c, st, o2);
      a.init(nregs, c.exec_seed, true);
      b.init(nregs, c.exec_seed, false);
      for (auto &op : c.hist.at("ops").a) {
        a.step++;
        b.step++;
        bool ra = a.apply(op), rb = b.apply(op);
        if (o1.violated != o2.violated) {
          out.violated = true;
          out.v.property = "C16";
          out.v.monitor = "wrapper_differs";
          out.v.item = "monitor_outcome";
          out.v.where = c.domain + ":step" + std::to_string(a.step);
          out.v.detail = "the soundness monitor fired on one side only: raw=" +
                         std::string(o1.violated ? o1.v.detail : "ok") +
                         " wrapped=" + std::string(o2.violated ? o2.v.detail : "ok");
          break;
        }
        if (!ra || !rb || o1.violated)
          break;
        for (int ri = 0; ri < nregs; ri++) {
          std::string sa = a.snapshot(ri), sb = b.snapshot(ri);
          if (sa != sb) {
            out.violated = true;
            out.v.property = "C16";
            out.v.monitor = "wrapper_differs";
            out.v.item = "snapshot";
            out.v.where = c.domain + ":step" + std::to_string(a.step);
            out.v.detail = "after " + op.dump() + " register " + std::to_string(ri) +
                           ": raw=" + sa + " wrapped=" + sb;
            break;
          }
        }
        if (out.violated)
          break;
        st.inc("lockstep_comparisons");
      }
      out.hash = hash_combine(a.h, b.h);
    } else {
      // benign events must not change the meaning of later results: H with events vs H without
      Outcome o1, o2;
      Case plain = c;
      plain.hist.set("ops", strip_benign(c.hist.at("ops")));
      Interp a(cx, c, st, o1), b(cx, plain, st, o2);
      a.init(nregs, c.exec_seed, true);
      b.init(nregs, c.exec_seed, true);
      a.run_ops(c.hist.at("ops"));
      b.run_ops(plain.hist.at("ops"));
      if (!o1.violated && !o2.violated && (di->caps & CAP_EXACT_EXPORT)) {
        // exact-export domains: the final meaning must be identical (two-sided).
        // Widening is not monotone wrt. representation, so histories with
        // widenings are only compared through the witnesses.
        // A benign event on a value that later becomes the operand of a widening
        // may legitimately change that widening; a benign event after the last
        // widening (e.g. on the un-normalised result of one) must not change
        // anything: only widenings that FOLLOW a benign event disable the comparison.
        bool has_widen = false, seen_benign = false;
        for (auto &op : c.hist.at("ops").a) {
          std::string o = op.at("op").as_str();
          if (o == "benign" || o == "alias")
            seen_benign = true;
          if (seen_benign && (o == "widen" || o == "widen_thr" || o == "narrow"))
            has_widen = true;
        }
        if (!has_widen) {
          for (int ri = 0; ri < nregs; ri++) {
            // compare after normalising both sides
            a.regs[ri].val->normalize();
            b.regs[ri].val->normalize();
            std::string sa = a.snapshot(ri), sb = b.snapshot(ri);
            if (sa != sb) {
              out.violated = true;
              out.v.property = "C16";
              out.v.monitor = "benign_events_changed_result";
              out.v.item = "snapshot";
              out.v.where = c.domain;
              out.v.detail = "register " + std::to_string(ri) + ": with events=" + sa +
                             " without=" + sb;
              break;
            }
          }
          st.inc("benign_vs_plain_comparisons");
        }
      }
      if (o1.violated && !o2.violated &&
          o1.v.monitor.compare(0, 27, "witness_lost_after_benign_") == 0) {
        out = o1;
      }
      out.hash = hash_combine(a.h, b.h);
    }
  });
  if (!gr.ok && !out.violated) {
    out.refusal = gr.msg;
    st.inc("refused");
  }
  st.inc("histories");
  st.result_hashes.push_back(out.hash);
  return out;
}
PropertyRegistrar reg_c16({"C16", "sim_hist", gen_c16, check_c16, hist_domains});

} // namespace
} // namespace sim
