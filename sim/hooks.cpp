#include "hooks.hpp"
#include "util.hpp"
#include <crab/support/debug.hpp>

namespace sim {
HookState &hooks() {
  static HookState h;
  return h;
}

GuardResult guarded(long tick_budget, const std::function<void()> &f) {
  GuardResult r;
  HookState &h = hooks();
  long saved_ticks = h.ticks, saved_budget = h.tick_budget;
  h.ticks = 0;
  h.tick_budget = tick_budget;
  try {
    f();
  } catch (const FatalError &e) {
    r.ok = false;
    r.fatal = true;
    r.msg = e.msg;
  } catch (const TickBudgetExceeded &) {
    r.ok = false;
    r.budget = true;
    r.msg = "tick budget exceeded";
  } catch (const std::exception &e) {
    r.ok = false;
    r.other = true;
    r.msg = e.what();
  }
  r.ticks = h.ticks;
  h.ticks = saved_ticks + r.ticks;
  h.tick_budget = saved_budget;
  return r;
}
} // namespace sim

namespace crab {
namespace verif {
void raise_fatal_error(const std::string &msg) {
  sim::hooks().fatal_errors++;
  throw sim::FatalError(msg);
}
void tick() {
  sim::HookState &h = sim::hooks();
  h.ticks++;
  if (h.tick_budget >= 0 && h.ticks > h.tick_budget)
    throw sim::TickBudgetExceeded();
}
bool unusual(const char *site) {
  sim::HookState &h = sim::hooks();
  if (site[0] == 't' && site[1] == 'd') // "td_check_delayed_now": a diagnostic switch, not a fault
    return h.td_check_delayed_now;
  if (!h.unusual_enabled)
    return false;
  h.unusual_seen++;
  if (sim::mix64(h.unusual_seed ^ (uint64_t)h.unusual_seen) % 1000 < h.unusual_per_mille) {
    h.unusual_fired++;
    return true;
  }
  return false;
}
} // namespace verif
} // namespace crab
