#include "prop_common.hpp"
#include <algorithm>

namespace sim {

void restrict_for_domain(GenConfig &gc, const DomainInfo &di) {
  if (di.caps & CAP_INT64) {
    // raw int64 weights: graph_config.hpp documents that overflow is not
    // handled; keep magnitudes far away from it
    gc.large = false;
    gc.huge = false;
  }
  if (di.caps & CAP_PARTITION)
    gc.partition = true;
  if (di.caps & CAP_BV) {
    gc.large = false;
    gc.huge = false;
  }
}

void random_fixpo(Rng &r, Json &params) {
  static const long delays[] = {0, 0, 1, 1, 2, 3, 5};
  static const long descs[] = {0, 1, 1, 2, 3, 5};
  static const long thrs[] = {0, 0, 0, 5, 20};
  params.set("delay", delays[r.below(7)]);
  params.set("desc", descs[r.below(6)]);
  params.set("thr", thrs[r.below(5)]);
}

FixpoCfg fixpo_of(const Case &c) {
  FixpoCfg f;
  f.delay = (unsigned)c.pint("delay", 1);
  f.descending = (unsigned)c.pint("desc", 1);
  f.thresholds = (unsigned)c.pint("thr", 0);
  return f;
}

long tick_budget_for(const Program &p) {
  long blocks = 0;
  for (auto &f : p.funcs)
    blocks += (long)f.blocks.size();
  // honest runs need 10..500 ticks (max observed: ~100); the budget is 3 orders of
  // magnitude above, and small enough to be exhausted by a diverging analysis of
  // an expensive domain long before the 180 s wall-clock watchdog of the workers
  return 50000 + 5000 * blocks * (long)p.funcs.size();
}

void configure_scheduler(RandomScheduler &s, const Case &c, const DomainInfo &di,
                         const std::vector<mpz_class> &pool) {
  s.pool = pool;
  s.policy = (RandomScheduler::Policy)(c.pint("policy", 1) % 3);
  s.large = c.pbool("large") && !(di.caps & CAP_INT64);
  s.huge = c.pbool("huge") && !(di.caps & CAP_INT64);
  s.bv = (di.caps & CAP_BV) != 0;
}

MachineConfig machine_config_for(const Case &c, const DomainInfo &di) {
  MachineConfig mc;
  mc.max_steps = c.pint("max_steps", 2000);
  mc.max_depth = (int)c.pint("max_depth", 6);
  mc.inter = c.pbool("inter_machine");
  mc.magnitude_bits = (di.caps & CAP_INT64) ? 40 : 120;
  mc.remake_outside = c.pbool("remake_outside");
  mc.bv = (di.caps & CAP_BV) != 0;
  mc.bv_strict = c.pbool("bv_strict");
  return mc;
}

void account_run(Stats &st, Machine &m, EndReason er) {
  st.inc("executions");
  st.inc(std::string("end_") + end_reason_name(er));
  st.inc("machine_steps", m.steps);
  if (er == EndReason::OUTSIDE)
    st.inc("outside:" + m.outside_why);
  // block-path hash = the "distinct interleavings" measure
  uint64_t h = 99;
  long blocks = 0;
  for (auto &e : m.events)
    if (e.k == Event::BLOCK) {
      h = hash_combine(h, hash_str(e.a));
      blocks++;
    }
  st.path_hashes.push_back(h);
  if (blocks >= 3)
    st.inc("executions_3plus_blocks");
}

std::string trace_of(const Machine &m, size_t max_events) {
  std::string r;
  size_t from = m.events.size() > max_events ? m.events.size() - max_events : 0;
  for (size_t i = from; i < m.events.size(); i++)
    r += m.events[i].str() + "\n";
  return r;
}

std::vector<std::string> acyclic_reachable_blocks(const Function &f) {
  std::map<std::string, int> idx;
  for (size_t i = 0; i < f.blocks.size(); i++)
    idx[f.blocks[i].label] = (int)i;
  size_t n = f.blocks.size();
  // reach[i][j]: j reachable from i in >= 1 step
  std::vector<std::vector<bool>> reach(n, std::vector<bool>(n, false));
  for (size_t i = 0; i < n; i++)
    for (auto &s : f.blocks[i].succs)
      reach[i][idx[s]] = true;
  for (size_t k = 0; k < n; k++)
    for (size_t i = 0; i < n; i++)
      if (reach[i][k])
        for (size_t j = 0; j < n; j++)
          if (reach[k][j])
            reach[i][j] = true;
  std::vector<std::string> r;
  for (size_t i = 0; i < n; i++)
    if ((i == 0 || reach[0][i]) && !reach[i][i])
      r.push_back(f.blocks[i].label);
  return r;
}

void add_alt_entry_and_assumptions(Rng &r, Case &c) {
  const Function &f = c.prog.funcs[0];
  if (r.chance(1, 5)) {
    auto cand = acyclic_reachable_blocks(f);
    if (!cand.empty())
      c.params.set("alt_entry", cand[r.below(cand.size())]);
  }
  if (r.chance(1, 4)) {
    std::vector<std::string> ints;
    for (auto &v : f.vars)
      if (v.ty == Ty::INT && v.width == 32)
        ints.push_back(v.name);
    if (ints.empty())
      return;
    Json am = Json::obj();
    int nb = (int)r.range(1, 2);
    for (int k = 0; k < nb; k++) {
      const Block &b = f.blocks[r.below(f.blocks.size())];
      Json cs = Json::arr();
      int nc = (int)r.range(1, 2);
      for (int i = 0; i < nc; i++) {
        LinCst lc;
        lc.kind = LinCst::LEQ;
        long bound = (long)r.range(-10, 10);
        if (r.coin()) { // x <= bound
          lc.e = LinExp::var(ints[r.below(ints.size())]);
          lc.e.cst = -bound;
        } else { // x >= bound
          lc.e = LinExp::var(ints[r.below(ints.size())], -1);
          lc.e.cst = bound;
        }
        cs.push(lc.to_json());
      }
      am.set(b.label, cs);
    }
    c.params.set("assumptions", am);
  }
}

} // namespace sim
