// C09 (top-down inter-procedural analysis), C10 (bottom-up summaries +
// top-down phase), plus the inter-procedural verdict sources of C02 and the
// inter-procedural termination part of C05.
#include "inter.hpp"
#include "prop_common.hpp"

namespace sim {
namespace {

InterCfg inter_cfg_of(const Case &c) {
  InterCfg ic;
  ic.only_main = c.pbool("only_main");
  ic.delay = (unsigned)c.pint("delay", 1);
  ic.desc = (unsigned)c.pint("desc", 1);
  ic.thr = (unsigned)c.pint("thr", 0);
  ic.run_checker = c.pbool("run_checker", true);
  long mc = c.pint("max_ctx", -1);
  ic.max_ctx = mc < 0 ? 0xffffffffu : (unsigned)mc;
  ic.analyze_recursive = c.pbool("analyze_recursive");
  ic.exact_reuse = c.pbool("exact_reuse", true);
  ic.liveness = c.pbool("liveness");
  return ic;
}

Case gen_inter(const std::string &prop, Rng &r, const Tier &t,
               const std::vector<std::string> &doms, bool force_recursion = false) {
  Case c;
  c.property = prop;
  c.domain = doms[r.below(doms.size())];
  const DomainInfo *di = find_domain(c.domain);
  GenConfig::Profile prof =
      (di->caps & CAP_BOOL) && r.chance(2, 3) ? GenConfig::NUMBOOL : GenConfig::NUM;
  GenConfig gc = random_gen_config(r, prof, true);
  restrict_for_domain(gc, *di);
  if (force_recursion)
    gc.recursion = true;
  gc.max_blocks = std::min(gc.max_blocks, 5);
  gc.n_asserts = std::max(gc.n_asserts, 1);
  c.prog = generate_program(r, gc);
  c.params.set("gen", gc.to_json());
  random_fixpo(r, c.params);
  c.params.set("only_main", r.chance(1, 3) ? 1 : 0);
  static const long ctxs[] = {-1, -1, 0, 1, 2, 3};
  c.params.set("max_ctx", ctxs[r.below(6)]);
  c.params.set("analyze_recursive", r.coin() ? 1 : 0);
  c.params.set("exact_reuse", r.chance(2, 3) ? 1 : 0);
  c.params.set("liveness", r.chance(1, 4) ? 1 : 0);
  c.params.set("policy", (long)r.below(3));
  c.params.set("large", gc.large ? 1 : 0);
  c.params.set("huge", gc.huge ? 1 : 0);
  c.params.set("inter_machine", 1);
  c.params.set("max_depth", 5);
  c.params.set("max_steps", 3000);
  random_knobs(r, c.domain, c.params);
  c.exec_seed = r.next() & 0x3fffffffffffffffULL;
  c.n_execs = t.execs;
  return c;
}

// block-level monitor over call stacks + summary monitor on returns
struct InterMonitor : Monitor {
  std::function<AbsVal::P(CrabFunction &, const std::string &, bool)> inv; // (fn,label,is_pre)
  std::function<std::vector<SummaryPair>(CrabFunction &)> summaries;
  const Case &cs;
  const DomainInfo &di;
  Stats &st;
  Outcome &out;
  std::map<std::string, AbsVal::P> cache;
  std::map<const AbsVal *, GammaCache> caches; // the invariants are never mutated here
  std::map<std::string, std::vector<SummaryPair>> sum_cache;
  std::map<std::string, int> seen;
  GammaOpts full, cheap;
  bool check_blocks = true, check_summaries = true;
  // Calling contexts. When the entry state of a callee activation is not described by
  // the callee's entry invariant the *calling context is not covered* by the analysis
  // (what known findings KF28 / KF2 produce). Everything that happens inside such an
  // activation is a consequence and is not judged; the event is kept as a pending
  // violation of its own monitor ("context_not_covered") and the execution goes on, so
  // that a violation that is not a matter of context coverage (a wrong summary, an
  // unsound caller continuation, an unsound block inside a covered activation) is
  // still found and reported in preference.
  int uncovered_depth = 1 << 30;
  bool have_pending = false;
  Violation pending;
  std::string pending_trace;
  bool context_only = false;          // C02i: block invariants are only used for context coverage
  VerdictMonitor *verdicts = nullptr; // C02i: verdicts are judged in covered activations
  void begin_run() { uncovered_depth = 1 << 30; }
  bool on_assert(Machine &m, Frame &f, const std::string &label, stmt_t &s, int64_t id,
                 bool holds) override {
    if (!verdicts)
      return true;
    if (inside_uncovered(f)) {
      // a verdict that is wrong only in a calling context the analysis did not cover
      // is the context's business: judged as part of "context_not_covered"
      return true;
    }
    return verdicts->on_assert(m, f, label, s, id, holds);
  }
  bool inside_uncovered(const Frame &f) const { return f.depth >= uncovered_depth; }
  // functions whose invariants are meaningful (analysed from the chosen roots)
  InterMonitor(const Case &c, const DomainInfo &d, Stats &s, Outcome &o)
      : cs(c), di(d), st(s), out(o) {
    cheap.use_index = false;
    cheap.probes = false;
    cheap.point_meet = false;
    cheap.export_disj = false;
  }
  bool check(Machine &m, Frame &f, const std::string &label, bool is_pre) {
    if (!check_blocks)
      return true;
    if (inside_uncovered(f))
      return true;
    bool callee_entry = is_pre && f.depth > 0 && label == f.fn->cfg->entry();
    if (context_only && !callee_entry)
      return true;
    std::string key = f.fn->src->name + ":" + label + (is_pre ? ":pre" : ":post");
    auto it = cache.find(key);
    if (it == cache.end())
      it = cache.insert({key, inv(*f.fn, label, is_pre)}).first;
    Sigma sg = sigma_of(f.st, f.fn->vars, &m.heap);
    int &n = seen[key];
    GammaResult g = in_gamma(*it->second, sg, n < 4 ? full : cheap, &caches[it->second.get()]);
    n++;
    st.inc("gamma_checks");
    if (!g.ok) {
      Violation v;
      v.property = cs.property;
      v.monitor = callee_entry ? "context_not_covered" : (is_pre ? "pre_invariant" : "post_invariant");
      v.item = g.item;
      v.where = f.fn->src->name + ":" + label + " depth=" + std::to_string(f.depth) +
                (m.stack_has_recursion() ? " rec=1" : " rec=0");
      v.detail = g.detail + " ; invariant=" + it->second->str();
      if (callee_entry) {
        st.inc("calling_contexts_not_covered");
        uncovered_depth = f.depth;
        if (!have_pending) {
          have_pending = true;
          pending = v;
          pending_trace = trace_of(m);
        }
        return true; // go on: the callers' continuations are still judged
      }
      out.violated = true;
      out.v = v;
      return false;
    }
    return true;
  }
  bool on_block_entry(Machine &m, Frame &f, const std::string &l) override {
    return check(m, f, l, true);
  }
  bool on_block_exit(Machine &m, Frame &f, const std::string &l) override {
    return check(m, f, l, false);
  }
  bool on_return(Machine &m, Frame &, Frame &callee, const Store &entry, stmt_t &) override {
    bool was_uncovered = inside_uncovered(callee);
    if (callee.depth <= uncovered_depth)
      uncovered_depth = 1 << 30; // the uncovered activation returns
    if (!check_summaries || was_uncovered)
      return true;
    return check_summary(m, callee, entry);
  }
  // also used for the outermost activation when it completes
  bool check_summary(Machine &m, Frame &callee, const Store &entry) {
    CrabFunction &fn = *callee.fn;
    if (!fn.cfg->has_func_decl())
      return true;
    auto const &d = fn.cfg->get_func_decl();
    if (d.get_num_outputs() == 0)
      return true;
    auto it = sum_cache.find(fn.src->name);
    if (it == sum_cache.end())
      it = sum_cache.insert({fn.src->name, summaries(fn)}).first;
    // input valuation at entry, outputs at exit
    std::map<std::string, var_t> in_vars, io_vars;
    Store in_store, io_store;
    for (unsigned i = 0; i < d.get_num_inputs(); i++) {
      const var_t &v = d.get_input_name(i);
      const Value *x = entry.get(v);
      if (!x)
        return true;
      in_vars.insert({v.name().str(), v});
      io_vars.insert({v.name().str(), v});
      in_store.set(v, *x);
      io_store.set(v, *x);
    }
    for (unsigned i = 0; i < d.get_num_outputs(); i++) {
      const var_t &v = d.get_output_name(i);
      const Value *x = callee.st.get(v);
      if (!x)
        return true;
      io_vars.insert({v.name().str(), v});
      io_store.set(v, *x);
    }
    Sigma in_s = sigma_of(in_store, in_vars, &m.heap);
    Sigma io_s = sigma_of(io_store, io_vars, &m.heap);
    for (auto &sp : it->second) {
      // does the input valuation satisfy the precondition? (two-sided test needed)
      bool applies = false;
      if (sp.pre->is_top())
        applies = true;
      else if (di.caps & CAP_EXACT_EXPORT) {
        if (!sp.pre->is_bottom()) {
          applies = true;
          for (auto const &cst : sp.pre->to_lin()) {
            int r = eval_cst_sigma(cst, in_s);
            if (r != 1)
              applies = false;
          }
        }
      }
      if (!applies) {
        st.inc("summary_pairs_not_applicable");
        continue;
      }
      st.inc("summary_pairs_checked");
      GammaResult g = in_gamma(*sp.post, io_s, full);
      if (!g.ok) {
        out.violated = true;
        out.v.property = cs.property;
        out.v.monitor = "summary";
        out.v.item = g.item;
        out.v.where = fn.src->name;
        out.v.detail = "a concrete call with inputs " + in_s.str() +
                       " satisfying the summary precondition " + sp.pre->str() +
                       " returns " + io_s.str() + " outside the postcondition: " + g.detail +
                       " ; post=" + sp.post->str();
        return false;
      }
    }
    return true;
  }
};

// run executions from the given entry functions
template <class F>
void run_inter_execs(const Case &c, const DomainInfo &di, CrabProgram &cp, InterMonitor &mon,
                     Stats &st, Outcome &out, uint64_t &h, const std::vector<std::string> &roots,
                     F after_run) {
  std::vector<mpz_class> pool;
  harvest_constants(c.prog, pool);
  for (int e = 0; e < c.n_execs && !out.violated; e++) {
    RandomScheduler sched(mix64(c.exec_seed + (uint64_t)e));
    configure_scheduler(sched, c, di, pool);
    MachineConfig mc = machine_config_for(c, di);
    Machine m(cp, sched, &mon, mc);
    CrabFunction *root = cp.func(roots[(size_t)e % roots.size()]);
    if (!root)
      continue;
    mon.begin_run();
    EndReason er = m.run(*root, Store());
    account_run(st, m, er);
    long calls = 0;
    for (auto &ev : m.events)
      if (ev.k == Event::CALL)
        calls++;
    st.inc("concrete_calls", calls);
    h = hash_combine(h, m.history_hash());
    if (out.violated)
      out.trace = trace_of(m);
    after_run(m, er);
  }
  if (!out.violated && mon.have_pending) {
    out.violated = true;
    out.v = mon.pending;
    out.trace = mon.pending_trace;
  }
}

std::vector<std::string> roots_of(const Case &c, const std::vector<std::string> &entries) {
  std::vector<std::string> r;
  if (c.pbool("only_main")) {
    r.push_back("main");
    return r;
  }
  for (auto &e : entries)
    r.push_back(e);
  if (r.empty())
    r.push_back("main");
  return r;
}

// --------------------------------------------------------------------------
// C09
// --------------------------------------------------------------------------
Outcome check_c09(const Case &c, Stats &st) {
  Outcome out;
  apply_knobs(c);
  const DomainInfo *di = find_domain(c.domain);
  if (!di) {
    out.refusal = "unknown domain";
    return out;
  }
  std::unique_ptr<CrabProgram> cp;
  std::unique_ptr<dom_t> top;
  std::unique_ptr<TopDown> td;
  std::vector<std::string> entries;
  GuardResult gr = guarded(tick_budget_for(c.prog), [&]() {
    cp = build_program(c.prog);
    top.reset(di->make_dom());
    td = TopDown::create(*cp, *top, inter_cfg_of(c));
    td->run(top->make_top());
    entries = td->entries();
  });
  st.inc("analysis_ticks", gr.ticks);
  if (!gr.ok) {
    if (gr.budget)
      out.budget = true;
    out.refusal = gr.msg;
    st.inc("refused");
    return out;
  }
  st.inc("analyses");
  uint64_t h = 13;
  GuardResult mg = guarded(-1, [&]() {
    InterMonitor mon(c, *di, st, out);
    mon.inv = [&](CrabFunction &f, const std::string &l, bool is_pre) {
      return is_pre ? td->pre(f, l) : td->post(f, l);
    };
    mon.summaries = [&](CrabFunction &f) { return td->summary(f); };
    run_inter_execs(c, *di, *cp, mon, st, out, h, roots_of(c, entries),
                    [](Machine &, EndReason) {});
    for (auto &kv : mon.cache)
      h = hash_combine(h, hash_str(kv.first + "=" + kv.second->str()));
  });
  if (!mg.ok && !out.violated) {
    out.refusal = "query failed: " + mg.msg;
    st.inc("refused_in_monitor");
  }
  st.inc("fault_f5_ntow_fired", hooks().unusual_fired);
  st.inc("gamma_refused_queries", hooks().refused_queries);
  st.inc("gamma_tag_checks", hooks().tag_checks);
  st.result_hashes.push_back(h);
  out.hash = h;
  return out;
}

// --------------------------------------------------------------------------
// C10
// --------------------------------------------------------------------------
Case gen_c10(Rng &r, const Tier &t, const std::vector<std::string> &doms) {
  Case c;
  for (;;) {
    c = gen_inter("C10", r, t, doms);
    // the summary (bottom-up) domain differs from the forward domain in 2/3 of the cases
    if (r.chance(2, 3)) {
      static const char *bus[] = {"intervals", "zones_sdbm", "oct_split", "zones_sparse"};
      std::string b = bus[r.below(4)];
      if (find_domain(b))
        c.domain2 = b;
    }
    if (c.domain2.empty())
      c.domain2 = c.domain;
    const DomainInfo *d2 = find_domain(c.domain2);
    // a program generated with large constants is not given to a summary domain with raw
    // int64 weights (documented not to handle overflow): draw again
    if (d2 && (d2->caps & CAP_INT64) && (c.pbool("large") || c.pbool("huge")))
      continue;
    break;
  }
  c.params.set("only_main", 1);
  return c;
}

Outcome check_c10(const Case &c, Stats &st) {
  Outcome out;
  apply_knobs(c);
  const DomainInfo *di = find_domain(c.domain);
  const DomainInfo *d2 = find_domain(c.domain2.empty() ? c.domain : c.domain2);
  if (!di || !d2) {
    out.refusal = "unknown domain";
    return out;
  }
  // programs with magnitudes beyond what the summary domain can take are not generated;
  // a minimised case may still carry them
  std::unique_ptr<CrabProgram> cp;
  std::unique_ptr<dom_t> td_top, bu_top;
  std::unique_ptr<BottomUp> bu;
  GuardResult gr = guarded(tick_budget_for(c.prog), [&]() {
    cp = build_program(c.prog);
    td_top.reset(di->make_dom());
    bu_top.reset(d2->make_dom());
    bu = BottomUp::create(*cp, *td_top, *bu_top, inter_cfg_of(c));
    bu->run(td_top->make_top());
  });
  st.inc("analysis_ticks", gr.ticks);
  if (!gr.ok) {
    if (gr.budget)
      out.budget = true;
    out.refusal = gr.msg;
    st.inc("refused");
    return out;
  }
  st.inc("analyses");
  st.inc(c.domain2 == c.domain ? "same_domains" : "different_domains");
  uint64_t h = 17;
  // the machine must respect the stricter of the two domains' magnitude limits
  const DomainInfo *lim = (d2->caps & CAP_INT64) ? d2 : di;
  GuardResult mg = guarded(-1, [&]() {
    InterMonitor mon(c, *d2, st, out);
    mon.inv = [&](CrabFunction &f, const std::string &l, bool is_pre) {
      return is_pre ? bu->pre(f, l) : bu->post(f, l);
    };
    mon.summaries = [&](CrabFunction &f) { return bu->summary(f); };
    run_inter_execs(c, *lim, *cp, mon, st, out, h, {"main"}, [](Machine &, EndReason) {});
    for (auto &kv : mon.cache)
      h = hash_combine(h, hash_str(kv.first + "=" + kv.second->str()));
  });
  if (!mg.ok && !out.violated) {
    out.refusal = "query failed: " + mg.msg;
    st.inc("refused_in_monitor");
  }
  st.result_hashes.push_back(h);
  out.hash = h;
  return out;
}

// --------------------------------------------------------------------------
// C02 (inter-procedural verdict sources)
// --------------------------------------------------------------------------
Case gen_c02i(Rng &r, const Tier &t, const std::vector<std::string> &doms) {
  Case c = gen_inter("C02", r, t, doms);
  c.params.set("analyzer", r.chance(2, 3) ? "topdown" : "bottomup");
  if (c.pstr("analyzer") == "bottomup")
    c.params.set("only_main", 1);
  return c;
}

Outcome check_c02i(const Case &c, Stats &st) {
  Outcome out;
  apply_knobs(c);
  const DomainInfo *di = find_domain(c.domain);
  if (!di) {
    out.refusal = "unknown domain";
    return out;
  }
  std::unique_ptr<CrabProgram> cp;
  std::unique_ptr<dom_t> top;
  std::unique_ptr<TopDown> td;
  std::unique_ptr<BottomUp> bu;
  CheckResult cr;
  std::vector<std::string> entries;
  bool topdown = c.pstr("analyzer", "topdown") == "topdown";
  GuardResult gr = guarded(tick_budget_for(c.prog), [&]() {
    cp = build_program(c.prog);
    top.reset(di->make_dom());
    if (topdown) {
      td = TopDown::create(*cp, *top, inter_cfg_of(c));
      td->run(top->make_top());
      cr = td->checks();
      entries = td->entries();
    } else {
      bu = BottomUp::create(*cp, *top, *top, inter_cfg_of(c));
      bu->run(top->make_top());
      cr = bu->checks();
    }
  });
  st.inc("analysis_ticks", gr.ticks);
  if (!gr.ok) {
    if (gr.budget)
      out.budget = true;
    out.refusal = gr.msg;
    st.inc("refused");
    return out;
  }
  st.inc("analyses");
  st.inc(std::string("analyzer_") + (topdown ? "topdown" : "bottomup"));
  st.inc("verdict_safe", cr.safe);
  st.inc("verdict_warning", cr.warn);
  st.inc("verdict_unreachable", cr.unreach);
  uint64_t h = 19;
  for (auto &kv : cr.by_id)
    for (auto v : kv.second)
      h = hash_combine(h, (uint64_t)kv.first * 8 + (uint64_t)v);
  VerdictMonitor vmon(cr, c, out);
  GuardResult mg = guarded(-1, [&]() {
    InterMonitor mon(c, *di, st, out);
    mon.context_only = true;
    mon.check_summaries = false;
    mon.verdicts = &vmon;
    mon.inv = [&](CrabFunction &f, const std::string &l, bool is_pre) {
      if (topdown)
        return is_pre ? td->pre(f, l) : td->post(f, l);
      return is_pre ? bu->pre(f, l) : bu->post(f, l);
    };
    run_inter_execs(c, *di, *cp, mon, st, out, h,
                    topdown ? roots_of(c, entries) : std::vector<std::string>{"main"},
                    [](Machine &, EndReason) {});
  });
  if (!mg.ok && !out.violated) {
    out.refusal = "query failed: " + mg.msg;
    st.inc("refused_in_monitor");
  }
  st.inc("assertions_judged", vmon.judged);
  st.inc("assertions_judged_safe_verdict", vmon.judged_safe);
  st.inc("assertions_reached_false", vmon.reached_false);
  st.result_hashes.push_back(h);
  out.hash = h;
  return out;
}

// --------------------------------------------------------------------------
// C05 (inter-procedural termination under the tick clock)
// --------------------------------------------------------------------------
Case gen_c05i(Rng &r, const Tier &t, const std::vector<std::string> &doms) {
  Case c = gen_inter("C05", r, t, doms);
  c.params.set("part", "termination_inter");
  c.params.set("analyzer", r.chance(2, 3) ? "topdown" : "bottomup");
  c.n_execs = 0;
  return c;
}
Outcome check_c05i(const Case &c, Stats &st) {
  Outcome out;
  apply_knobs(c);
  const DomainInfo *di = find_domain(c.domain);
  if (!di) {
    out.refusal = "unknown domain";
    return out;
  }
  bool topdown = c.pstr("analyzer", "topdown") == "topdown";
  long budget = tick_budget_for(c.prog);
  GuardResult gr = guarded(budget, [&]() {
    auto cp = build_program(c.prog);
    std::unique_ptr<dom_t> top(di->make_dom());
    if (topdown) {
      auto td = TopDown::create(*cp, *top, inter_cfg_of(c));
      td->run(top->make_top());
    } else {
      auto bu = BottomUp::create(*cp, *top, *top, inter_cfg_of(c));
      bu->run(top->make_top());
    }
  });
  st.inc("analysis_ticks", gr.ticks);
  st.inc(std::string("analyzer_") + (topdown ? "topdown" : "bottomup"));
  st.c["max_ticks_one_run"] = std::max(st.c["max_ticks_one_run"], gr.ticks);
  out.hash = (uint64_t)gr.ticks;
  st.result_hashes.push_back(out.hash);
  if (gr.budget) {
    out.violated = true;
    out.v.property = "C05";
    out.v.monitor = "termination";
    out.v.item = topdown ? "topdown" : "bottomup";
    out.v.where = c.domain;
    out.v.detail = "inter-procedural analysis exceeded the step budget of " +
                   std::to_string(budget) + " ticks";
    return out;
  }
  if (!gr.ok) {
    out.refusal = gr.msg;
    st.inc("refused");
    return out;
  }
  st.inc("analyses");
  return out;
}

std::vector<std::string> inter_domains(const Tier &t) {
  return domains_with(0, CAP_ARRAY | CAP_REGION | CAP_BV | CAP_SLOW, !t.thorough);
}

PropertyRegistrar reg_c09({"C09", "sim_prog",
                           [](Rng &r, const Tier &t, const std::vector<std::string> &d) {
                             return gen_inter("C09", r, t, d);
                           },
                           check_c09, inter_domains});
PropertyRegistrar reg_c10({"C10", "sim_prog", gen_c10, check_c10, inter_domains});
PropertyRegistrar reg_c02i({"C02i", "sim_prog", gen_c02i, check_c02i, inter_domains});
PropertyRegistrar reg_c05i({"C05i", "sim_prog", gen_c05i, check_c05i, inter_domains});

// C05j: the same check on recursive call graphs with the precise handling of recursion
// (the fixpoint over the entry/exit values of recursive functions is where the
// inter-procedural analysis can diverge)
Case gen_c05j(Rng &r, const Tier &t, const std::vector<std::string> &doms) {
  Case c = gen_inter("C05", r, t, doms, true);
  c.params.set("part", "termination_inter");
  c.params.set("analyzer", "topdown");
  c.params.set("analyze_recursive", 1);
  c.n_execs = 0;
  return c;
}
PropertyRegistrar reg_c05j({"C05j", "sim_prog", gen_c05j, check_c05i, inter_domains});

} // namespace
} // namespace sim
