#include "inter.hpp"
#include <crab/analysis/inter/bottom_up_inter_analyzer.hpp>
#include <crab/analysis/inter/top_down_inter_analyzer.hpp>
#include <crab/checkers/assertion.hpp>
#include <crab/checkers/checker.hpp>
#include <crab/cg/cg_bgl.hpp>

namespace sim {
using namespace crab::analyzer;
using namespace crab::checker;

CheckResult convert_checks(const checks_db &db); // an_intra.cpp

namespace {

using params_t = inter_analyzer_parameters<cg_t>;
using live_t = live_and_dead_analysis<cfg_ref_t>;

struct CG {
  std::unique_ptr<cg_t> cg;
  std::vector<std::unique_ptr<live_t>> lives;
  typename params_t::liveness_map_t live_map;
  params_t params;
  CG(CrabProgram &p, const InterCfg &c) {
    std::vector<cfg_ref_t> cfgs;
    for (auto &f : p.funcs)
      cfgs.push_back(cfg_ref_t(*f.cfg));
    cg.reset(new cg_t(cfgs));
    params.only_main_as_entry = c.only_main;
    params.widening_delay = c.delay;
    params.descending_iters = c.desc;
    params.thresholds_size = c.thr;
    params.run_checker = c.run_checker;
    params.max_call_contexts = c.max_ctx;
    params.analyze_recursive_functions = c.analyze_recursive;
    params.exact_summary_reuse = c.exact_reuse;
    if (c.liveness) {
      for (auto &f : p.funcs) {
        cfg_ref_t ref(*f.cfg);
        lives.emplace_back(new live_t(ref));
        lives.back()->exec();
        live_map.insert({ref, lives.back().get()});
      }
      params.live_map = &live_map;
    }
  }
};

using td_t = top_down_inter_analyzer<cg_t, dom_t>;

struct TopDownImpl : TopDown {
  CG g;
  std::unique_ptr<td_t> an;
  TopDownImpl(CrabProgram &p, const dom_t &top, InterCfg c) : g(p, c) {
    an.reset(new td_t(*g.cg, top, g.params));
  }
  void run(const dom_t &init) override { an->run(init); }
  AbsVal::P pre(CrabFunction &f, const std::string &l) override {
    return wrap_dom(an->get_pre(cfg_ref_t(*f.cfg), l));
  }
  AbsVal::P post(CrabFunction &f, const std::string &l) override {
    return wrap_dom(an->get_post(cfg_ref_t(*f.cfg), l));
  }
  std::vector<SummaryPair> summary(CrabFunction &f) override {
    std::vector<SummaryPair> r;
    auto s = an->get_summary(cfg_ref_t(*f.cfg));
    for (auto &pp : s) {
      SummaryPair sp;
      sp.pre = wrap_dom(pp.get_pre());
      sp.post = wrap_dom(pp.get_post());
      r.push_back(std::move(sp));
    }
    return r;
  }
  CheckResult checks() override { return convert_checks(an->get_all_checks()); }
  std::vector<std::string> entries() override {
    std::vector<std::string> r;
    for (auto &n : g.cg->entries())
      r.push_back(n.name());
    return r;
  }
};

using bu_t = bottom_up_inter_analyzer<cg_t, dom_t, dom_t>;

struct BottomUpImpl : BottomUp {
  CG g;
  std::unique_ptr<bu_t> an;
  BottomUpImpl(CrabProgram &p, const dom_t &td_top, const dom_t &bu_top, InterCfg c) : g(p, c) {
    an.reset(new bu_t(*g.cg, td_top, bu_top, g.params));
  }
  void run(const dom_t &init) override { an->run(init); }
  AbsVal::P pre(CrabFunction &f, const std::string &l) override {
    return wrap_dom(an->get_pre(cfg_ref_t(*f.cfg), l));
  }
  AbsVal::P post(CrabFunction &f, const std::string &l) override {
    return wrap_dom(an->get_post(cfg_ref_t(*f.cfg), l));
  }
  std::vector<SummaryPair> summary(CrabFunction &f) override {
    std::vector<SummaryPair> r;
    auto s = an->get_summary(cfg_ref_t(*f.cfg));
    for (auto &pp : s) {
      SummaryPair sp;
      sp.pre = wrap_dom(pp.get_pre());
      sp.post = wrap_dom(pp.get_post());
      r.push_back(std::move(sp));
    }
    return r;
  }
  CheckResult checks() override {
    using checker_t = inter_checker<bu_t>;
    using assert_checker_t = assert_property_checker<bu_t>;
    typename checker_t::prop_checker_ptr prop(new assert_checker_t(0));
    checker_t checker(*an, {prop});
    checker.run();
    return convert_checks(checker.get_all_checks());
  }
};

} // namespace

std::unique_ptr<TopDown> TopDown::create(CrabProgram &p, const dom_t &top, InterCfg c) {
  return std::unique_ptr<TopDown>(new TopDownImpl(p, top, c));
}
std::unique_ptr<BottomUp> BottomUp::create(CrabProgram &p, const dom_t &td_top,
                                           const dom_t &bu_top, InterCfg c) {
  return std::unique_ptr<BottomUp>(new BottomUpImpl(p, td_top, bu_top, c));
}

} // namespace sim
