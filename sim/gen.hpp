// Seeded generator of SimIR programs (DESIGN.md section 5).
#pragma once
#include "simir.hpp"

namespace sim {

struct GenConfig {
  enum Profile { NUM, NUMBOOL, ARRAY, REGION } profile = NUM;
  bool inter = false;      // several functions with call sites
  bool recursion = false;  // allow (mutual) recursion in the call graph
  int max_funcs = 3;
  int max_blocks = 8;
  int max_stmts = 4;
  int nvars = 4;
  int nbools = 2;
  int n_asserts = 3;
  // statement kinds
  bool mul = true, divs = true, bitwise = true, shifts = true, casts = true, select = true;
  bool nonunit = true;     // non-unit / zero / negative coefficients
  bool large = false;      // magnitudes around 2^31, 2^62
  bool huge = false;       // magnitudes beyond 64 bit
  bool mid_assume = true;  // assumes in the middle of blocks
  bool unreach_stmt = true;
  bool havoc = true;
  // shape features
  bool loops = true, nested = true, irreducible = true, self_loops = true;
  bool dead_ends = true, unreachable_blocks = true, no_exit = false, entry_loop = true;
  bool guards = true;      // assume-guarded branches (else pure non-determinism)
  bool func_decl = true;   // give the (single) function a declaration with outputs
  bool templates = true;   // sometimes emit a counting-loop template
  bool partition = false;  // emit value_partition_start/_end intrinsics (value-partitioning domains)
  int bv_width = 0;        // BV profile: width of the ordinary integer variables (0 = not BV)
  bool arr_assign = true;  // ARRAY profile: array copies (array_adaptive has no backward array_assign)
  Json to_json() const;
};

GenConfig random_gen_config(Rng &r, GenConfig::Profile profile, bool inter);

Program generate_program(Rng &r, const GenConfig &c);

// well-formedness of a SimIR program wrt. the builder (used by the minimiser
// to reject candidates early)
bool simir_wellformed(const Program &p, std::string *why = nullptr);

} // namespace sim
