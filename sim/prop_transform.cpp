// C17: CFG transformations preserve behaviour (lock-step trace refinement in
// both directions under one decision trace).
// C18: liveness and assertion-dependence facts (fault injection F1 / F2:
// corrupt a variable reported dead / not flowing into an assertion and
// compare the remaining history).
#include "dataflow.hpp"
#include "prop_common.hpp"
#include <algorithm>

namespace sim {
namespace {

// the block path of the outermost frame
std::vector<std::string> block_path(const Machine &m) {
  std::vector<std::string> p;
  int depth = 0;
  for (auto &e : m.events) {
    if (e.k == Event::CALL)
      depth++;
    else if (e.k == Event::RET)
      depth--;
    else if (e.k == Event::BLOCK && depth == 0)
      p.push_back(e.a);
  }
  return p;
}

// observable history: outcomes of evaluated conditions and assertions.
// `lowered` assertions count as conditions (they become assumes).
std::vector<std::string> observable(const Machine &m, const std::set<int64_t> &lowered,
                                    bool with_selects) {
  std::vector<std::string> r;
  for (auto &e : m.events) {
    if (e.k == Event::COND)
      r.push_back(e.outcome ? "C1" : "C0");
    else if (e.k == Event::SELECT && with_selects)
      r.push_back(e.outcome ? "S1" : "S0");
    else if (e.k == Event::ASSERT) {
      if (lowered.count(e.id))
        r.push_back(e.outcome ? "C1" : "C0");
      else
        r.push_back("A" + std::to_string(e.id) + (e.outcome ? "=1" : "=0"));
    }
  }
  return r;
}

std::string join(const std::vector<std::string> &v) {
  std::string r;
  for (auto &x : v)
    r += x + " ";
  return r;
}

std::set<std::string> labels_of(CrabFunction &fn) {
  std::set<std::string> s;
  for (auto it = fn.cfg->label_begin(), et = fn.cfg->label_end(); it != et; ++it)
    s.insert(*it);
  return s;
}

bool has_edge(CrabFunction &fn, const std::string &a, const std::string &b) {
  block_t &bb = fn.cfg->get_node(a);
  for (auto const &s : boost::make_iterator_range(bb.next_blocks()))
    if (s == b)
      return true;
  return false;
}

// expand an edge u->v of the transformed cfg into the chain of blocks of the
// original that were merged away (blocks not surviving in the transformed cfg)
bool expand_edge(CrabFunction &orig, const std::set<std::string> &surviving, const std::string &u,
                 const std::string &v, std::vector<std::string> &chain) {
  // BFS through non-surviving blocks only
  std::map<std::string, std::string> parent;
  std::vector<std::string> q = {u};
  parent[u] = "";
  size_t qi = 0;
  while (qi < q.size()) {
    std::string cur = q[qi++];
    block_t &b = orig.cfg->get_node(cur);
    for (auto const &s : boost::make_iterator_range(b.next_blocks())) {
      if (s == v) {
        // reconstruct
        std::vector<std::string> rev;
        std::string x = cur;
        while (x != u) {
          rev.push_back(x);
          x = parent[x];
        }
        chain.assign(rev.rbegin(), rev.rend());
        return true;
      }
      if (!surviving.count(s) && !parent.count(s)) {
        parent[s] = cur;
        q.push_back(s);
      }
    }
  }
  return false;
}

Store outputs_of(CrabFunction &fn, const Store &final_store) {
  Store o;
  if (fn.cfg->has_func_decl()) {
    auto const &d = fn.cfg->get_func_decl();
    for (unsigned i = 0; i < d.get_num_outputs(); i++) {
      const Value *v = final_store.get(d.get_output_name(i));
      if (v)
        o.set(d.get_output_name(i), *v);
    }
  }
  return o;
}
bool same_store(const Store &a, const Store &b, std::string &diff) {
  for (auto &kv : a.m) {
    auto it = b.m.find(kv.first);
    if (it == b.m.end() || !kv.second.same(it->second)) {
      diff = "output #" + std::to_string(kv.first) + ": " + kv.second.str() + " vs " +
             (it == b.m.end() ? "undef" : it->second.str());
      return false;
    }
  }
  return true;
}

// --------------------------------------------------------------------------
// C17
// --------------------------------------------------------------------------
Case gen_c17(Rng &r, const Tier &t, const std::vector<std::string> &doms) {
  Case c;
  c.property = "C17";
  c.domain = doms.empty() ? "intervals" : doms[r.below(doms.size())];
  GenConfig gc = random_gen_config(r, r.coin() ? GenConfig::NUM : GenConfig::NUMBOOL, false);
  gc.func_decl = r.chance(3, 4);
  gc.no_exit = false;
  gc.dead_ends = r.chance(1, 2);
  gc.unreachable_blocks = r.chance(1, 2);
  gc.large = false;
  gc.huge = false;
  c.prog = generate_program(r, gc);
  c.params.set("gen", gc.to_json());
  static const char *ts[] = {"simplify", "dce", "lower", "simplify+dce", "dce+simplify",
                             "lower+dce+simplify"};
  c.params.set("transform", ts[r.below(6)]);
  random_fixpo(r, c.params);
  c.params.set("policy", (long)r.below(3));
  c.exec_seed = r.next() & 0x3fffffffffffffffULL;
  c.n_execs = t.execs;
  return c;
}

Outcome check_c17(const Case &c, Stats &st) {
  Outcome out;
  apply_knobs(c);
  const DomainInfo *di = find_domain(c.domain);
  if (!di)
    di = find_domain("intervals");
  std::unique_ptr<CrabProgram> cp;
  std::unique_ptr<CrabFunction> tf;
  std::set<int64_t> lowered;
  std::string tr = c.pstr("transform", "simplify");
  auto fail = [&](const std::string &monitor, const std::string &item, const std::string &where,
                  const std::string &detail) {
    out.violated = true;
    out.v.property = "C17";
    out.v.monitor = monitor;
    out.v.item = item;
    out.v.where = where;
    out.v.detail = detail;
  };
  GuardResult gr = guarded(tick_budget_for(c.prog), [&]() {
    cp = build_program(c.prog);
    CrabFunction &fn = cp->funcs[0];
    tf = clone_function(fn);
    for (auto &step : std::vector<std::string>{"lower", "dce", "simplify"}) {
      (void)step;
    }
    // apply the requested pipeline in the written order
    std::vector<std::string> steps;
    {
      std::string cur;
      for (char ch : tr) {
        if (ch == '+') {
          steps.push_back(cur);
          cur.clear();
        } else
          cur += ch;
      }
      steps.push_back(cur);
    }
    for (auto &s : steps) {
      if (s == "simplify" || s == "dce") {
        // a transformation that aborts on a cfg the type checker accepts yields no
        // transformed cfg at all: no execution of the original has a counterpart
        try {
          if (s == "simplify")
            transform_simplify(*tf);
          else
            transform_dce(*tf);
        } catch (const FatalError &e) {
          fail("transformation_aborts", s, cp->funcs[0].src->name,
               "crab aborts (CRAB_ERROR) while transforming a well-typed cfg: " + e.msg);
          return;
        }
      }
      else if (s == "lower") {
        // the safe set comes from the real checker on the real forward analysis
        std::unique_ptr<dom_t> top(di->make_dom());
        auto an = IntraFwd::create(fn, *top, fixpo_of(c), false);
        AssumptionMap none;
        an->run(fn.cfg->entry(), top->make_top(), none);
        CheckResult cr = an->check();
        for (auto &kv : cr.by_id) {
          bool all_safe = !kv.second.empty();
          for (auto v : kv.second)
            if (v != Verdict::SAFE)
              all_safe = false;
          if (all_safe)
            lowered.insert(kv.first);
        }
        transform_lower(*tf, lowered);
        st.inc("assertions_lowered", (long)lowered.size());
      }
    }
  });
  if (out.violated)
    return out;
  if (!gr.ok) {
    out.refusal = gr.msg;
    st.inc("refused");
    st.inc("refused_transform:" + tr);
    return out;
  }
  st.inc("transform_" + tr);
  CrabFunction &fn = cp->funcs[0];
  // structural invariant
  {
    std::string pb = cfg_structure_problem(*tf);
    if (!pb.empty()) {
      fail("structure", tr, fn.src->name, pb);
      return out;
    }
    if (tf->cfg->entry() != fn.cfg->entry()) {
      fail("structure", tr, fn.src->name, "entry changed");
      return out;
    }
    if (fn.cfg->has_exit() != tf->cfg->has_exit()) {
      fail("structure", tr, fn.src->name, "exit block lost");
      return out;
    }
  }
  std::set<std::string> surviving = labels_of(*tf);
  st.inc("blocks_removed_or_merged", (long)(labels_of(fn).size() - surviving.size()));
  bool removes_stmts = tr.find("dce") != std::string::npos;
  bool with_selects = !removes_stmts;
  std::vector<mpz_class> pool;
  harvest_constants(c.prog, pool);
  uint64_t h = 5;
  // a CrabProgram view for the transformed function (same variables)
  for (int e = 0; e < c.n_execs && !out.violated; e++) {
    uint64_t seed = mix64(c.exec_seed + (uint64_t)e);
    MachineConfig mc = machine_config_for(c, *di);
    // ---------- forward: original -> transformed
    RandomScheduler s1(seed);
    configure_scheduler(s1, c, *di, pool);
    Machine m1(*cp, s1, nullptr, mc);
    EndReason r1 = m1.run(fn, Store());
    account_run(st, m1, r1);
    h = hash_combine(h, m1.history_hash());
    if (r1 == EndReason::EXIT) {
      st.inc("forward_refinement_checks");
      std::vector<std::string> path = block_path(m1), proj;
      for (auto &l : path)
        if (surviving.count(l))
          proj.push_back(l);
      if (proj.empty() || proj[0] != tf->cfg->entry()) {
        fail("forward_refinement", tr, fn.src->name,
             "the entry block of the original execution does not survive");
        break;
      }
      bool edges_ok = true;
      for (size_t i = 0; i + 1 < proj.size(); i++)
        if (!has_edge(*tf, proj[i], proj[i + 1])) {
          fail("forward_refinement", tr, fn.src->name + ":" + proj[i],
               "the transformed cfg has no edge " + proj[i] + "->" + proj[i + 1] +
                   " for an exit-reaching execution of the original");
          edges_ok = false;
          break;
        }
      if (!edges_ok)
        break;
      TraceScheduler s2(seed);
      configure_scheduler(s2, c, *di, pool);
      s2.path = proj;
      Machine m2(*cp, s2, nullptr, mc);
      EndReason r2 = m2.run(*tf, Store());
      if (r2 != EndReason::EXIT) {
        fail("forward_refinement", tr, fn.src->name,
             std::string("an execution that reaches exit in the original ends with '") +
                 end_reason_name(r2) + "' in the transformed cfg (" + m2.outside_why + ")");
        out.trace = "--- original\n" + trace_of(m1) + "--- transformed\n" + trace_of(m2);
        break;
      }
      std::vector<std::string> o1 = observable(m1, lowered, with_selects),
                               o2 = observable(m2, lowered, with_selects);
      if (o1 != o2) {
        fail("forward_refinement", tr, fn.src->name,
             "condition/assertion outcomes differ: original=[" + join(o1) + "] transformed=[" +
                 join(o2) + "]");
        out.trace = "--- original\n" + trace_of(m1) + "--- transformed\n" + trace_of(m2);
        break;
      }
      std::string diff;
      if (!same_store(outputs_of(fn, m1.final_store), outputs_of(*tf, m2.final_store), diff)) {
        fail("forward_refinement", tr, fn.src->name, "function outputs differ at exit: " + diff);
        out.trace = "--- original\n" + trace_of(m1) + "--- transformed\n" + trace_of(m2);
        break;
      }
    }
    // ---------- backward: transformed -> original
    RandomScheduler s3(seed ^ 0xabcdef);
    configure_scheduler(s3, c, *di, pool);
    Machine m3(*cp, s3, nullptr, mc);
    EndReason r3 = m3.run(*tf, Store());
    account_run(st, m3, r3);
    if (r3 == EndReason::EXIT) {
      st.inc("backward_refinement_checks");
      std::vector<std::string> tpath = block_path(m3), full;
      bool ok = true;
      for (size_t i = 0; i < tpath.size(); i++) {
        full.push_back(tpath[i]);
        if (i + 1 < tpath.size()) {
          if (has_edge(fn, tpath[i], tpath[i + 1]))
            continue;
          std::vector<std::string> chain;
          if (!expand_edge(fn, surviving, tpath[i], tpath[i + 1], chain)) {
            fail("backward_refinement", tr, fn.src->name + ":" + tpath[i],
                 "edge " + tpath[i] + "->" + tpath[i + 1] +
                     " of the transformed cfg corresponds to no path of the original");
            ok = false;
            break;
          }
          full.insert(full.end(), chain.begin(), chain.end());
        }
      }
      if (!ok)
        break;
      // the exit of the transformed cfg may be a block into which the original
      // exit was merged: extend the path to the original exit
      if (fn.cfg->has_exit() && full.back() != fn.cfg->exit()) {
        std::vector<std::string> chain;
        if (expand_edge(fn, surviving, full.back(), fn.cfg->exit(), chain)) {
          full.insert(full.end(), chain.begin(), chain.end());
          full.push_back(fn.cfg->exit());
        }
      }
      TraceScheduler s4(seed ^ 0xabcdef);
      configure_scheduler(s4, c, *di, pool);
      s4.path = full;
      Machine m4(*cp, s4, nullptr, mc);
      EndReason r4 = m4.run(fn, Store());
      if (r4 != EndReason::EXIT) {
        // proviso: a removed statement may fail in the original
        if (removes_stmts && (r4 == EndReason::BLOCKED || r4 == EndReason::OUTSIDE)) {
          st.inc("backward_proviso_removed_statement_failed");
        } else if (r4 == EndReason::OUTSIDE || r4 == EndReason::STEP_CAP) {
          st.inc("backward_inconclusive");
        } else {
          fail("backward_refinement", tr, fn.src->name,
               std::string("the transformed cfg has an exit-reaching execution whose "
                           "counterpart in the original ends with '") +
                   end_reason_name(r4) + "'");
          out.trace = "--- transformed\n" + trace_of(m3) + "--- original\n" + trace_of(m4);
          break;
        }
      } else {
        std::vector<std::string> o3 = observable(m3, lowered, with_selects),
                                 o4 = observable(m4, lowered, with_selects);
        std::string diff;
        if (o3 != o4) {
          fail("backward_refinement", tr, fn.src->name,
               "condition/assertion outcomes differ: transformed=[" + join(o3) + "] original=[" +
                   join(o4) + "]");
          out.trace = "--- transformed\n" + trace_of(m3) + "--- original\n" + trace_of(m4);
          break;
        }
        if (!same_store(outputs_of(*tf, m3.final_store), outputs_of(fn, m4.final_store), diff)) {
          fail("backward_refinement", tr, fn.src->name,
               "function outputs differ at exit: " + diff);
          out.trace = "--- transformed\n" + trace_of(m3) + "--- original\n" + trace_of(m4);
          break;
        }
      }
    }
  }
  st.result_hashes.push_back(h);
  out.hash = h;
  return out;
}

std::vector<std::string> one_domain(const Tier &) { return {"intervals"}; }
PropertyRegistrar reg_c17({"C17", "sim_prog", gen_c17, check_c17, one_domain});

// --------------------------------------------------------------------------
// C18
// --------------------------------------------------------------------------
Case gen_c18(Rng &r, const Tier &t, const std::vector<std::string> &doms) {
  Case c;
  c.property = "C18";
  c.domain = "intervals";
  (void)doms;
  GenConfig gc = random_gen_config(r, r.coin() ? GenConfig::NUM : GenConfig::NUMBOOL, false);
  gc.func_decl = r.chance(3, 4);
  gc.large = false;
  gc.huge = false;
  gc.n_asserts = std::max(gc.n_asserts, 2);
  gc.unreach_stmt = r.chance(1, 2);
  c.prog = generate_program(r, gc);
  c.params.set("gen", gc.to_json());
  c.params.set("mode", r.chance(3, 5) ? "liveness" : "crawler");
  c.params.set("only_data", r.coin() ? 1 : 0);
  c.params.set("policy", (long)r.below(3));
  c.exec_seed = r.next() & 0x3fffffffffffffffULL;
  c.n_execs = t.execs;
  return c;
}

// remaining history after position `from` (index in events) in observable form
std::vector<std::string> observable_from(const Machine &m, size_t from_block_index) {
  std::vector<std::string> r;
  size_t blocks = 0;
  int depth = 0;
  for (auto &e : m.events) {
    if (e.k == Event::CALL)
      depth++;
    if (e.k == Event::RET)
      depth--;
    if (e.k == Event::BLOCK && depth == 0)
      blocks++;
    if (blocks <= from_block_index)
      continue;
    if (e.k == Event::COND)
      r.push_back(std::string("C") + (e.outcome ? "1" : "0"));
    else if (e.k == Event::SELECT)
      r.push_back(std::string("S") + (e.outcome ? "1" : "0"));
    else if (e.k == Event::ASSERT)
      r.push_back("A" + std::to_string(e.id) + (e.outcome ? "=1" : "=0"));
    else if (e.k == Event::BLOCK && depth == 0)
      r.push_back("B" + e.a);
    else if (e.k == Event::END)
      r.push_back("E" + e.a);
  }
  return r;
}

// operand values of assertions when evaluated: records (id, occurrence) -> values
struct AssertOperands : Monitor {
  std::map<std::pair<int64_t, int>, std::string> vals;
  std::map<int64_t, int> occ;
  std::map<std::pair<int64_t, int>, std::string> path_at; // block path hash up to the assertion
  std::vector<std::string> path;
  bool on_block_entry(Machine &, Frame &f, const std::string &l) override {
    if (f.depth == 0)
      path.push_back(l);
    return true;
  }
  bool on_assert(Machine &, Frame &f, const std::string &, stmt_t &s, int64_t id, bool) override {
    if (f.depth != 0)
      return true;
    std::string v;
    auto const &lv = s.get_live();
    for (auto it = lv.uses_begin(); it != lv.uses_end(); ++it) {
      const Value *x = f.st.get(*it);
      v += it->name().str() + "=" + (x ? x->str() : "?") + " ";
    }
    int k = occ[id]++;
    vals[{id, k}] = v;
    std::string p;
    for (auto &l : path)
      p += l + ">";
    path_at[{id, k}] = p;
    return true;
  }
};

// Reference model of control dependence (Ferrante/Ottenstein/Warren through
// post-dominators) on the SimIR graph, for the data+control mode of the crawler:
// cd[P] = blocks that are control dependent on P. Only defined (ok = true) when the
// function has an exit block that every block reachable from the entry can reach.
struct RefCdg {
  bool ok = false;
  std::map<std::string, std::set<std::string>> cd;
  // is A reachable in the control-dependence graph from some block that is control
  // dependent on P (the crawler's test when it crosses an assume whose block has
  // predecessor P)?
  bool depends(const std::string &P, const std::string &A) const {
    auto it = cd.find(P);
    if (it == cd.end())
      return false;
    std::set<std::string> seen;
    std::vector<std::string> work(it->second.begin(), it->second.end());
    while (!work.empty()) {
      std::string x = work.back();
      work.pop_back();
      if (x == A)
        return true;
      if (!seen.insert(x).second)
        continue;
      auto jt = cd.find(x);
      if (jt != cd.end())
        for (auto &y : jt->second)
          work.push_back(y);
    }
    return false;
  }
};
RefCdg reference_cdg(const Function &f) {
  RefCdg r;
  if (f.exit.empty() || f.blocks.empty())
    return r;
  std::map<std::string, std::vector<std::string>> succ;
  std::set<std::string> all;
  for (auto &b : f.blocks) {
    all.insert(b.label);
    succ[b.label] = b.succs;
  }
  // blocks reachable from the entry
  std::set<std::string> reach;
  std::vector<std::string> work = {f.blocks[0].label};
  while (!work.empty()) {
    std::string x = work.back();
    work.pop_back();
    if (!reach.insert(x).second)
      continue;
    for (auto &y : succ[x])
      work.push_back(y);
  }
  // every block (reachable or not: crab computes post-dominance on the whole graph)
  // must reach the exit, otherwise definitions of post-dominance differ
  for (auto &n : all) {
    std::set<std::string> seen;
    std::vector<std::string> w = {n};
    bool hit = false;
    while (!w.empty() && !hit) {
      std::string x = w.back();
      w.pop_back();
      if (x == f.exit)
        hit = true;
      if (!seen.insert(x).second)
        continue;
      for (auto &y : succ[x])
        w.push_back(y);
    }
    if (!hit)
      return r;
  }
  if (!succ[f.exit].empty())
    return r; // an exit block with successors: keep to the textbook setting
  // post-dominators: pdom(exit) = {exit}; pdom(n) = {n} + intersection over successors
  std::map<std::string, std::set<std::string>> pdom;
  for (auto &n : all)
    pdom[n] = (n == f.exit) ? std::set<std::string>{n} : all;
  bool changed = true;
  while (changed) {
    changed = false;
    for (auto &n : all) {
      if (n == f.exit)
        continue;
      std::set<std::string> acc;
      bool first = true;
      for (auto &sx : succ[n]) {
        if (first) {
          acc = pdom[sx];
          first = false;
        } else {
          std::set<std::string> t;
          for (auto &x : acc)
            if (pdom[sx].count(x))
              t.insert(x);
          acc = t;
        }
      }
      acc.insert(n);
      if (acc != pdom[n]) {
        pdom[n] = acc;
        changed = true;
      }
    }
  }
  // A is control dependent on P iff A post-dominates some successor of P and A does
  // not strictly post-dominate P
  for (auto &P : all)
    for (auto &sx : succ[P])
      for (auto &A : pdom[sx])
        // (crab's frontier computation never makes a block control dependent on
        // itself - `runner != n` in dominance.hpp -, so a loop head is not; the
        // property only demands data dependences, the reference follows crab here)
        if (A != P && !pdom[P].count(A))
          r.cd[P].insert(A);
  r.ok = true;
  (void)reach;
  return r;
}

Outcome check_c18(const Case &c, Stats &st) {
  Outcome out;
  apply_knobs(c);
  const DomainInfo *di = find_domain("intervals");
  std::unique_ptr<CrabProgram> cp;
  LiveInfo li;
  CrawlerInfo ci;
  bool liveness_mode = c.pstr("mode", "liveness") == "liveness";
  GuardResult gr = guarded(tick_budget_for(c.prog), [&]() {
    cp = build_program(c.prog);
    if (liveness_mode)
      li = run_liveness(cp->funcs[0]);
    else
      ci = run_crawler(cp->funcs[0], c.pbool("only_data"));
  });
  if (!gr.ok) {
    out.refusal = gr.msg;
    st.inc("refused");
    return out;
  }
  RefCdg refcdg = liveness_mode ? RefCdg() : reference_cdg(c.prog.funcs[0]);
  if (refcdg.ok)
    st.inc("reference_cdg_defined");
  CrabFunction &fn = cp->funcs[0];
  st.inc(liveness_mode ? "mode_liveness" : "mode_crawler");
  auto fail = [&](const std::string &monitor, const std::string &item, const std::string &where,
                  const std::string &detail) {
    out.violated = true;
    out.v.property = "C18";
    out.v.monitor = monitor;
    out.v.item = item;
    out.v.where = where;
    out.v.detail = detail;
  };
  std::vector<mpz_class> pool;
  harvest_constants(c.prog, pool);
  uint64_t h = 3;
  for (int e = 0; e < c.n_execs && !out.violated; e++) {
    uint64_t seed = mix64(c.exec_seed + (uint64_t)e);
    Rng fr(seed ^ 0xfa17);
    MachineConfig mc = machine_config_for(c, *di);
    RandomScheduler s1(seed);
    configure_scheduler(s1, c, *di, pool);
    AssertOperands mon1;
    Machine m1(*cp, s1, &mon1, mc);
    EndReason r1 = m1.run(fn, Store());
    account_run(st, m1, r1);
    h = hash_combine(h, m1.history_hash());
    if (r1 == EndReason::OUTSIDE || r1 == EndReason::STEP_CAP)
      continue;
    std::vector<std::string> path = block_path(m1);
    if (path.empty())
      continue;
    if (liveness_mode) {
      // ---- F1: corrupt a variable reported dead at the end of a block on the path
      size_t bi = fr.below(path.size());
      const std::string &b = path[bi];
      bool use_dead_exit = fr.coin();
      std::vector<std::string> cand;
      if (use_dead_exit) {
        for (auto &v : li.dead_exit[b])
          cand.push_back(v);
      } else {
        // the consumer's view (what DCE uses): everything not in live-out
        for (auto &kv : fn.vars)
          if (!li.live_out[b].count(kv.first))
            cand.push_back(kv.first);
      }
      // only scalar variables are corrupted
      std::vector<std::string> sc;
      for (auto &v : cand) {
        auto it = fn.vars.find(v);
        if (it != fn.vars.end() &&
            (it->second.get_type().is_integer() || it->second.get_type().is_bool()))
          sc.push_back(v);
      }
      if (sc.empty()) {
        st.inc("f1_no_dead_variable");
        continue;
      }
      std::string victim = sc[fr.below(sc.size())];
      // the last block of a run that did not complete it has no "end of block"
      bool completed_block = (bi + 1 < path.size()) || r1 == EndReason::EXIT ||
                             r1 == EndReason::NO_EXIT;
      if (!completed_block)
        continue;
      TraceScheduler s2(seed);
      configure_scheduler(s2, c, *di, pool);
      s2.path = path;
      Machine m2(*cp, s2, nullptr, mc);
      size_t visit = 0;
      bool fired = false;
      var_t vv = fn.vars.at(victim);
      mpz_class delta = (long)fr.range(1, 9) * (fr.coin() ? 1 : -1);
      m2.at_block_end = [&](Machine &mm, Frame &f, const std::string &) {
        if (f.depth != 0)
          return;
        if (visit++ == bi && !fired) {
          fired = true;
          const Value *old = f.st.get(vv);
          if (!old)
            return;
          Value nv = *old;
          if (nv.k == Value::INT)
            nv.i += delta;
          else if (nv.k == Value::BOOL)
            nv.b = !nv.b;
          f.st.set(vv, nv);
          mm.log(Event::FAULT, victim, (int64_t)bi, false, nv.str());
        }
      };
      EndReason r2 = m2.run(fn, Store());
      if (!fired)
        continue;
      st.inc(use_dead_exit ? "fault_f1_dead_exit_corruption" : "fault_f1_not_live_corruption");
      std::vector<std::string> o1 = observable_from(m1, bi), o2 = observable_from(m2, bi);
      bool differs = (o1 != o2) || (r1 != r2);
      std::string diff;
      if (!differs && r1 == EndReason::EXIT &&
          !same_store(outputs_of(fn, m1.final_store), outputs_of(fn, m2.final_store), diff))
        differs = true;
      if (differs) {
        fail("dead_variable_corruption", use_dead_exit ? "dead_exit" : "not_live_out",
             fn.src->name + ":" + b,
             "variable " + victim + " is reported " +
                 (use_dead_exit ? "dead" : "not live") + " at the end of " + b +
                 " but changing it there changes the rest of the execution: original=[" +
                 join(o1) + "] end=" + end_reason_name(r1) + " corrupted=[" + join(o2) +
                 "] end=" + end_reason_name(r2) + " " + diff);
        out.trace = "--- original\n" + trace_of(m1) + "--- corrupted\n" + trace_of(m2);
      }
    } else {
      // ---- reachability half: every assertion reached after block b_i is a key of facts(b_i)
      {
        // assertions reached, with the index of the block in which they were reached
        size_t blocks = 0;
        int depth = 0;
        for (auto &ev : m1.events) {
          if (ev.k == Event::CALL)
            depth++;
          if (ev.k == Event::RET)
            depth--;
          if (ev.k == Event::BLOCK && depth == 0)
            blocks++;
          if (ev.k == Event::ASSERT && depth == 0 && blocks > 0) {
            // only blocks strictly before the one containing the assertion are
            // judged by their entry facts... the containing block too (entry of block)
            for (size_t j = 0; j < blocks && !out.violated; j++) {
              const std::string &bj = path[j];
              if (ci.top_blocks.count(bj))
                continue;
              auto &m = ci.facts[bj];
              st.inc("crawler_reachability_checks");
              if (!m.count(ev.id)) {
                fail("assertion_not_listed", c.pbool("only_data") ? "data" : "data+control",
                     fn.src->name + ":" + bj,
                     "an execution started... passing through block " + bj +
                         " reaches assertion id=" + std::to_string(ev.id) +
                         " which the crawler does not list for that block");
                out.trace = trace_of(m1);
              }
            }
          }
        }
        if (out.violated)
          break;
      }
      // ---- F2: corrupt at the entry of block b a variable not listed for assertion a
      if (mon1.vals.empty())
        continue;
      size_t bi = fr.below(path.size());
      const std::string &b = path[bi];
      if (ci.top_blocks.count(b))
        continue;
      // choose an assertion instance reached after entering b (same path prefix)
      std::vector<std::pair<int64_t, int>> inst;
      std::string prefix;
      for (size_t j = 0; j <= bi; j++)
        prefix += path[j] + ">";
      for (auto &kv : mon1.path_at)
        if (kv.second.size() >= prefix.size() && kv.second.compare(0, prefix.size(), prefix) == 0)
          inst.push_back(kv.first);
      if (inst.empty())
        continue;
      auto target = inst[fr.below(inst.size())];
      auto fit = ci.facts[b].find(target.first);
      if (fit == ci.facts[b].end())
        continue; // reported above
      if (ci.vars_top[b][target.first])
        continue;
      std::vector<std::string> sc;
      for (auto &kv : fn.vars)
        if (!fit->second.count(kv.first) &&
            (kv.second.get_type().is_integer() || kv.second.get_type().is_bool()))
          sc.push_back(kv.first);
      if (sc.empty())
        continue;
      std::string victim = sc[fr.below(sc.size())];
      var_t vv = fn.vars.at(victim);
      TraceScheduler s2(seed);
      configure_scheduler(s2, c, *di, pool);
      s2.path = path;
      AssertOperands mon2;
      Machine m2(*cp, s2, &mon2, mc);
      size_t visit = 0;
      bool fired = false;
      mpz_class delta = (long)fr.range(1, 9) * (fr.coin() ? 1 : -1);
      m2.at_block_begin = [&](Machine &mm, Frame &f, const std::string &) {
        if (f.depth != 0)
          return;
        if (visit++ == bi && !fired) {
          fired = true;
          const Value *old = f.st.get(vv);
          if (!old)
            return;
          Value nv = *old;
          if (nv.k == Value::INT)
            nv.i += delta;
          else if (nv.k == Value::BOOL)
            nv.b = !nv.b;
          f.st.set(vv, nv);
          mm.log(Event::FAULT, victim, (int64_t)bi, false, nv.str());
        }
      };
      m2.run(fn, Store());
      if (!fired)
        continue;
      st.inc("fault_f2_non_dependence_corruption");
      auto a1 = mon1.vals.find(target), a2 = mon2.vals.find(target);
      if (!c.pbool("only_data") && refcdg.ok &&
          (a2 == mon2.vals.end() || mon2.path_at[target] != mon1.path_at[target])) {
        // ---- control half (data+control mode): the corrupted run follows the same block
        // path until an `assume` that held in the original run fails. If the block of the
        // assertion is (transitively) control dependent on the predecessor through which
        // that assume's block was entered, the crawler adds the assume's variables to the
        // assertion's set there, so the victim must have been listed at b.
        // align: m2 has one extra FAULT event; compare m1[i] with m2[i + shift]
        size_t i1 = 0, i2 = 0;
        bool diverged = false;
        while (i1 < m1.events.size() && i2 < m2.events.size()) {
          if (m2.events[i2].k == Event::FAULT) {
            i2++;
            continue;
          }
          const Event &e1 = m1.events[i1], &e2 = m2.events[i2];
          if (e1.k == e2.k && e1.a == e2.a && e1.id == e2.id && e1.outcome == e2.outcome) {
            i1++;
            i2++;
            continue;
          }
          diverged = true;
          break;
        }
        if (diverged) {
          const Event &e1 = m1.events[i1], &e2 = m2.events[i2];
          if (e1.k == Event::COND && e2.k == Event::COND && e1.a == e2.a && e1.id == e2.id &&
              e1.outcome && !e2.outcome) {
            // the statement must be a numeric assume of the outermost function
            block_t &sb = fn.cfg->get_node(e1.a);
            int si = 0;
            bool is_num_assume = false;
            for (auto &stmt : sb) {
              if (si == (int)e1.id)
                is_num_assume = stmt.is_assume();
              si++;
            }
            // position of that block on the path, and its predecessor on the path
            size_t blocks_before = 0;
            int depth = 0;
            for (size_t q = 0; q < i1; q++) {
              if (m1.events[q].k == Event::CALL)
                depth++;
              if (m1.events[q].k == Event::RET)
                depth--;
              if (m1.events[q].k == Event::BLOCK && depth == 0)
                blocks_before++;
            }
            // block of the assertion instance
            std::string ablock;
            {
              const std::string &pa = mon1.path_at[target]; // "b0>b1>...>bA>"
              size_t e = pa.size() ? pa.size() - 1 : 0;
              size_t sidx = pa.rfind('>', e ? e - 1 : 0);
              ablock = pa.substr(sidx == std::string::npos ? 0 : sidx + 1,
                                 e - (sidx == std::string::npos ? 0 : sidx + 1));
            }
            if (is_num_assume && depth == 0 && blocks_before >= 2 && blocks_before - 1 >= bi &&
                path[blocks_before - 1] == e1.a) {
              const std::string &P = path[blocks_before - 2];
              st.inc("f2_control_candidates");
              if (refcdg.depends(P, ablock)) {
                st.inc("f2_control_judged");
                fail("assertion_control_dependence_missing", "data+control",
                     fn.src->name + ":" + b,
                     "variable " + victim + " is not listed for assertion id=" +
                         std::to_string(target.first) + " (block " + ablock + ") at the entry of " +
                         b + ", but changing it there makes the assume #" +
                         std::to_string(e1.id) + " of block " + e1.a + " (entered from " + P +
                         ") fail, and " + ablock + " is control dependent on " + P +
                         " (reference control-dependence graph)");
                out.trace = "--- original\n" + trace_of(m1) + "--- corrupted\n" + trace_of(m2);
              }
            }
          }
        }
        if (out.violated)
          break;
      }
      if (a2 == mon2.vals.end() || mon2.path_at[target] != mon1.path_at[target])
        continue; // not reached on the same path: no verdict
      st.inc("f2_same_instance_reached");
      if (a1->second != a2->second) {
        fail("assertion_dependence_missing", c.pbool("only_data") ? "data" : "data+control",
             fn.src->name + ":" + b,
             "variable " + victim + " is not listed for assertion id=" +
                 std::to_string(target.first) + " at the entry of " + b +
                 " but its value there flows into the assertion's operands: original {" +
                 a1->second + "} corrupted {" + a2->second + "}");
        out.trace = "--- original\n" + trace_of(m1) + "--- corrupted\n" + trace_of(m2);
      }
    }
  }
  st.result_hashes.push_back(h);
  out.hash = h;
  return out;
}
PropertyRegistrar reg_c18({"C18", "sim_prog", gen_c18, check_c18, one_domain});

} // namespace
} // namespace sim
