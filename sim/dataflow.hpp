// Facades over crab's dataflow analyses and CFG transformations (real code).
#pragma once
#include "build.hpp"
#include <set>

namespace sim {

struct LiveInfo {
  // per block label: names of variables
  std::map<std::string, std::set<std::string>> live_out;  // liveness_analysis::get (what DCE consumes)
  std::map<std::string, std::set<std::string>> dead_exit; // live_and_dead_analysis::dead_exit
  std::set<std::string> known_live;                       // blocks for which get() is not bottom
};
LiveInfo run_liveness(CrabFunction &fn);

struct CrawlerInfo {
  // facts at block entry: assertion id -> variables that may flow into it
  std::map<std::string, std::map<int64_t, std::set<std::string>>> facts;
  std::map<std::string, std::map<int64_t, bool>> vars_top; // variable set is "top" (everything)
  std::set<std::string> top_blocks;                         // fact map is top: no information
};
CrawlerInfo run_crawler(CrabFunction &fn, bool only_data);

// a deep copy of the function's CFG (crab's own cfg::clone)
std::unique_ptr<CrabFunction> clone_function(const CrabFunction &fn);
bool transform_simplify(CrabFunction &fn);
bool transform_dce(CrabFunction &fn);
// replace the assertions with the given ids by assumes
bool transform_lower(CrabFunction &fn, const std::set<int64_t> &ids);

// structural well-formedness of a cfg: returns "" or a description
std::string cfg_structure_problem(CrabFunction &fn);

} // namespace sim
