#ifndef _CRAB_CONFIG_H_
#define _CRAB_CONFIG_H_
/* Private configuration of the verification build: no external numerical
   libraries (none is installed in this tree), statistics on as in the
   pinned build. */
/* #undef HAVE_LDD */
/* #undef HAVE_APRON */
/* #undef HAVE_PPLITE */
/* #undef HAVE_ELINA */
/* #undef NCRABLOG */
#define CRAB_STATS TRUE
/* #undef USE_GENERIC_WRAPPER */
#endif
