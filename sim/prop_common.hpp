// Helpers shared by the sim_prog property engines.
#pragma once
#include "analyses.hpp"
#include "core.hpp"
#include "gamma.hpp"
#include "hooks.hpp"
#include "machine.hpp"

namespace sim {

// remove generator features a domain's documented configuration cannot take
void restrict_for_domain(GenConfig &gc, const DomainInfo &di);
void random_fixpo(Rng &r, Json &params);
FixpoCfg fixpo_of(const Case &c);
long tick_budget_for(const Program &p);
void configure_scheduler(RandomScheduler &s, const Case &c, const DomainInfo &di,
                         const std::vector<mpz_class> &pool);
MachineConfig machine_config_for(const Case &c, const DomainInfo &di);
void account_run(Stats &st, Machine &m, EndReason er);
std::string trace_of(const Machine &m, size_t max_events = 60);
void add_alt_entry_and_assumptions(Rng &r, Case &c);
// blocks of f reachable from its entry that lie on no cycle
std::vector<std::string> acyclic_reachable_blocks(const Function &f);


// C02 monitor: a safe / unreachable verdict is refuted by an execution
struct VerdictMonitor : Monitor {
  const CheckResult &cr;
  const Case &cs;
  Outcome &out;
  std::string fname;
  long judged = 0, judged_safe = 0, reached_false = 0;
  VerdictMonitor(const CheckResult &r, const Case &c, Outcome &o) : cr(r), cs(c), out(o) {}
  bool on_assert(Machine &m, Frame &f, const std::string &label, stmt_t &s, int64_t id,
                 bool holds) override {
    auto it = cr.by_id.find(id);
    if (it == cr.by_id.end())
      return true;
    judged++;
    if (!holds)
      reached_false++;
    bool all_safe = true, any_unreach = false, all_unreach = true;
    for (auto v : it->second) {
      if (v != Verdict::SAFE && v != Verdict::UNREACH)
        all_safe = false;
      if (v == Verdict::UNREACH)
        any_unreach = true;
      else
        all_unreach = false;
    }
    (void)any_unreach;
    crab::crab_string_os os;
    os << s;
    if (all_unreach && !it->second.empty()) {
      out.violated = true;
      out.v.property = cs.property;
      out.v.monitor = "unreachable_verdict";
      out.v.item = cs.pstr("analyzer", "fwd");
      out.v.where = f.fn->src->name + ":" + label + (m.stack_has_recursion() ? " rec=1" : " rec=0");
      out.v.detail = "assertion id=" + std::to_string(id) + " [" + os.str() +
                     "] classified unreachable but an execution reaches it";
      return false;
    }
    if (all_safe && !it->second.empty()) {
      judged_safe++;
      if (!holds) {
        out.violated = true;
        out.v.property = cs.property;
        out.v.monitor = "safe_verdict";
        out.v.item = cs.pstr("analyzer", "fwd");
        out.v.where = f.fn->src->name + ":" + label + (m.stack_has_recursion() ? " rec=1" : " rec=0");
        out.v.detail = "assertion id=" + std::to_string(id) + " [" + os.str() +
                       "] classified safe but an execution reaches it with a false condition";
        return false;
      }
    }
    return true;
  }
};


} // namespace sim
