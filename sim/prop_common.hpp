// Helpers shared by the sim_prog property engines.
#pragma once
#include "analyses.hpp"
#include "core.hpp"
#include "gamma.hpp"
#include "hooks.hpp"
#include "machine.hpp"

namespace sim {

// remove generator features a domain's documented configuration cannot take
void restrict_for_domain(GenConfig &gc, const DomainInfo &di);
void random_fixpo(Rng &r, Json &params);
FixpoCfg fixpo_of(const Case &c);
long tick_budget_for(const Program &p);
void configure_scheduler(RandomScheduler &s, const Case &c, const DomainInfo &di,
                         const std::vector<mpz_class> &pool);
MachineConfig machine_config_for(const Case &c, const DomainInfo &di);
void account_run(Stats &st, Machine &m, EndReason er);
std::string trace_of(const Machine &m, size_t max_events = 60);
void add_alt_entry_and_assumptions(Rng &r, Case &c);
// blocks of f reachable from its entry that lie on no cycle
std::vector<std::string> acyclic_reachable_blocks(const Function &f);

} // namespace sim
