#include "common.hpp"
#include <crab/domains/combined_domains.hpp>
#include <crab/domains/dis_intervals.hpp>
#include <crab/domains/split_dbm.hpp>
#include <crab/domains/term_equiv.hpp>
using namespace simd;
using dis_t = dis_interval_domain<z_number, varname_t>;
using term_dis_t = term_domain<term::TDomInfo<z_number, varname_t, dis_t>>;
using sdbm_t = split_dbm_domain<z_number, varname_t, G_int64>;
using D = reduced_numerical_domain_product2<term_dis_t, sdbm_t>;
SIM_REGISTER_DOMAIN(num_term_dis_zones, D, "num_term_dis_zones",
                    CAP_INT64 | CAP_NTOW | CAP_SLOW | CAP_BACKWARD)
