#include "common.hpp"
#include <crab/domains/array_adaptive.hpp>
#include <crab/domains/intervals.hpp>
#include <crab/domains/term_equiv.hpp>
using namespace simd;
using intervals_t = ikos::interval_domain<z_number, varname_t>;
using term_t = term_domain<term::TDomInfo<z_number, varname_t, intervals_t>>;
using D = array_adaptive_domain<term_t>;
SIM_REGISTER_DOMAIN(aa_term_intervals, D, "aa_term_intervals", CAP_ARRAY)
