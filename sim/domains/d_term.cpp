#include "common.hpp"
#include <crab/domains/intervals.hpp>
#include <crab/domains/term_equiv.hpp>
using namespace simd;
using intervals_t = ikos::interval_domain<z_number, varname_t>;
using D = term_domain<term::TDomInfo<z_number, varname_t, intervals_t>>;
SIM_REGISTER_DOMAIN(term_intervals, D, "term_intervals",
                    CAP_CORE | CAP_BACKWARD)
