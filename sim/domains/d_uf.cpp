#include "common.hpp"
#include <crab/domains/uf_domain.hpp>
using namespace simd;
using D = uf_domain<z_number, varname_t>;
SIM_REGISTER_DOMAIN(uf, D, "uf", CAP_CORE)
