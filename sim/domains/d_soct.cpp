#include "common.hpp"
#include <crab/domains/split_oct.hpp>
using namespace simd;
using D = split_oct_domain<z_number, varname_t, G_int64>;
SIM_REGISTER_DOMAIN(oct_split, D, "oct_split",
                    CAP_EXACT_EXPORT | CAP_INT64 | CAP_NTOW | CAP_CORE | CAP_BACKWARD)
