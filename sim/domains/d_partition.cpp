#include "common.hpp"
#include <crab/domains/split_dbm.hpp>
#include <crab/domains/value_partitioning_domain.hpp>
using namespace simd;
using sdbm_t = split_dbm_domain<z_number, varname_t, G_int64>;
using D = product_value_partitioning_domain<sdbm_t>;
SIM_REGISTER_DOMAIN(partition_zones, D, "partition_zones",
                    CAP_INT64 | CAP_NTOW | CAP_PARTITION | CAP_CORE | CAP_BACKWARD)
// the single-variable variant
using D1 = value_partitioning_domain<sdbm_t>;
SIM_REGISTER_DOMAIN(partition1_zones, D1, "partition1_zones",
                    CAP_INT64 | CAP_NTOW | CAP_PARTITION | CAP_CORE | CAP_BACKWARD)
