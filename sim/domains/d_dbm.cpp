#include "common.hpp"
#include <crab/domains/sparse_dbm.hpp>
using namespace simd;
using D = sparse_dbm_domain<z_number, varname_t, G_int64>;
SIM_REGISTER_DOMAIN(zones_sparse, D, "zones_sparse",
                    CAP_EXACT_EXPORT | CAP_INT64 | CAP_NTOW | CAP_CORE | CAP_BACKWARD)
