#include "common.hpp"
#include <crab/domains/split_dbm.hpp>
#include <crab/domains/region_domain.hpp>
using namespace simd;
using base_t = split_dbm_domain<z_number, varname_t, G_int64>;
struct Params {
  using number_t = z_number;
  using varname_t = simd::varname_t;
  using varname_allocator_t = crab::var_factory_impl::str_var_alloc_col;
  using base_abstract_domain_t = base_t;
  using base_varname_t = typename base_t::varname_t;
};
using D = region_domain<Params>;
SIM_REGISTER_DOMAIN(rgn_zones, D, "rgn_zones", CAP_REGION | CAP_INT64 | CAP_NTOW | CAP_CORE)
