#include "common.hpp"
#include <crab/domains/array_smashing.hpp>
#include <crab/domains/flat_boolean_domain.hpp>
#include <crab/domains/intervals.hpp>
using namespace simd;
using intervals_t = ikos::interval_domain<z_number, varname_t>;
using D = array_smashing<flat_boolean_numerical_domain<intervals_t>>;
SIM_REGISTER_DOMAIN(as_bool_intervals, D, "as_bool_intervals", CAP_ARRAY | CAP_BOOL | CAP_CORE)
