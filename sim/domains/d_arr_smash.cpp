#include "common.hpp"
#include <crab/domains/array_smashing.hpp>
#include <crab/domains/intervals.hpp>
using namespace simd;
using intervals_t = ikos::interval_domain<z_number, varname_t>;
using D = array_smashing<intervals_t>;
SIM_REGISTER_DOMAIN(as_intervals, D, "as_intervals", CAP_ARRAY | CAP_CORE)
