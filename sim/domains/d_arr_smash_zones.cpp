#include "common.hpp"
#include <crab/domains/array_smashing.hpp>
#include <crab/domains/split_dbm.hpp>
using namespace simd;
using zones_t = split_dbm_domain<z_number, varname_t, G_int64>;
using D = array_smashing<zones_t>;
SIM_REGISTER_DOMAIN(as_zones, D, "as_zones", CAP_ARRAY | CAP_INT64 | CAP_NTOW | CAP_CORE)
