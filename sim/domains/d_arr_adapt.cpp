#include "common.hpp"
#include <crab/domains/array_adaptive.hpp>
#include <crab/domains/intervals.hpp>
using namespace simd;
using intervals_t = ikos::interval_domain<z_number, varname_t>;
using D = array_adaptive_domain<intervals_t>;
SIM_REGISTER_DOMAIN(aa_intervals, D, "aa_intervals", CAP_ARRAY | CAP_CORE | CAP_BACKWARD)
