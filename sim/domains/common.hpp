// Shared type aliases of the domain translation units (mirrors tests/crab_dom.hpp).
#pragma once
#include "../absval_impl.hpp"
#include <crab/domains/graphs/graph_config.hpp>
namespace simd {
using namespace sim;
using namespace crab::domains;
using z_number = ikos::z_number;
using G_int64 = DBM_impl::DefaultParams<z_number, DBM_impl::GraphRep::adapt_ss>;
using G_int64_ss = DBM_impl::DefaultParams<z_number, DBM_impl::GraphRep::ss>;
using G_int64_pt = DBM_impl::DefaultParams<z_number, DBM_impl::GraphRep::pt>;
using G_int64_ht = DBM_impl::DefaultParams<z_number, DBM_impl::GraphRep::ht>;
using G_safe = DBM_impl::SafeInt64DefaultParams<z_number, DBM_impl::GraphRep::adapt_ss>;
using G_big = DBM_impl::BigNumDefaultParams<z_number, DBM_impl::GraphRep::ss>;
} // namespace simd
