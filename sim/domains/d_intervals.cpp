#include "../absval_impl.hpp"
#include <crab/domains/intervals.hpp>
using namespace sim;
using D = ikos::interval_domain<number_t, varname_t>;
SIM_REGISTER_DOMAIN(intervals, D, "intervals",
                    CAP_EXACT_EXPORT | CAP_BACKWARD | CAP_NONREL | CAP_CORE)
