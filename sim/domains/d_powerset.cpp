#include "common.hpp"
#include <crab/domains/intervals.hpp>
#include <crab/domains/powerset_domain.hpp>
using namespace simd;
using intervals_t = ikos::interval_domain<z_number, varname_t>;
using D = powerset_domain<intervals_t>;
SIM_REGISTER_DOMAIN(pow_intervals, D, "pow_intervals",
                    CAP_CORE)
