#include "common.hpp"
#include <crab/domains/array_smashing.hpp>
#include <crab/domains/dis_intervals.hpp>
using namespace simd;
using D = array_smashing<dis_interval_domain<z_number, varname_t>>;
SIM_REGISTER_DOMAIN(as_dis_intervals, D, "as_dis_intervals", CAP_ARRAY)
