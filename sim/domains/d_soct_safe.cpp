#include "common.hpp"
#include <crab/domains/split_oct.hpp>
using namespace simd;
using D = split_oct_domain<z_number, varname_t, G_safe>;
SIM_REGISTER_DOMAIN(oct_split_safe, D, "oct_split_safe",
                    CAP_EXACT_EXPORT | CAP_NTOW | CAP_BACKWARD)
