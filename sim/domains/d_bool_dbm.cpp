#include "common.hpp"
#include <crab/domains/flat_boolean_domain.hpp>
#include <crab/domains/sparse_dbm.hpp>
using namespace simd;
using dbm_t = sparse_dbm_domain<z_number, varname_t, G_int64>;
using D = flat_boolean_numerical_domain<dbm_t>;
SIM_REGISTER_DOMAIN(bool_zones_sparse, D, "bool_zones_sparse",
                    CAP_BOOL | CAP_INT64 | CAP_NTOW | CAP_BACKWARD)
