#include "common.hpp"
#include <crab/domains/flat_boolean_domain.hpp>
#include <crab/domains/intervals.hpp>
using namespace simd;
using intervals_t = ikos::interval_domain<z_number, varname_t>;
using D = flat_boolean_numerical_domain<intervals_t>;
SIM_REGISTER_DOMAIN(bool_intervals, D, "bool_intervals",
                    CAP_BOOL | CAP_CORE | CAP_BACKWARD)
