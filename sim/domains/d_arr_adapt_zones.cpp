#include "common.hpp"
#include <crab/domains/array_adaptive.hpp>
#include <crab/domains/split_dbm.hpp>
using namespace simd;
using zones_t = split_dbm_domain<z_number, varname_t, G_int64>;
using D = array_adaptive_domain<zones_t>;
SIM_REGISTER_DOMAIN(aa_zones, D, "aa_zones", CAP_ARRAY | CAP_INT64 | CAP_NTOW | CAP_CORE | CAP_BACKWARD)
