#include "common.hpp"
#include <crab/domains/dis_intervals.hpp>
#include <crab/domains/term_equiv.hpp>
using namespace simd;
using dis_t = dis_interval_domain<z_number, varname_t>;
using D = term_domain<term::TDomInfo<z_number, varname_t, dis_t>>;
SIM_REGISTER_DOMAIN(term_dis_intervals, D, "term_dis_intervals",
                    CAP_BACKWARD)
