#include "common.hpp"
#include <crab/domains/split_dbm.hpp>
using namespace simd;
using D = split_dbm_domain<z_number, varname_t, G_safe>;
SIM_REGISTER_DOMAIN(zones_sdbm_safe, D, "zones_sdbm_safe",
                    CAP_EXACT_EXPORT | CAP_NTOW | CAP_BACKWARD)
