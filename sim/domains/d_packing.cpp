#include "common.hpp"
#include <crab/domains/numerical_packing.hpp>
#include <crab/domains/split_dbm.hpp>
using namespace simd;
using sdbm_t = split_dbm_domain<z_number, varname_t, G_int64>;
using D = numerical_packing_domain<sdbm_t>;
SIM_REGISTER_DOMAIN(packing_zones, D, "packing_zones",
                    CAP_INT64 | CAP_NTOW | CAP_BACKWARD)
