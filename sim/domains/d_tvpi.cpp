#include "common.hpp"
#include <crab/domains/split_dbm.hpp>
// fixed_tvpi_domain.hpp relies on the domain-parameter header being included first
#include <crab/domains/fixed_tvpi_domain.hpp>
using namespace simd;
using D = fixed_tvpi_domain<split_dbm_domain<z_number, varname_t, G_int64>>;
SIM_REGISTER_DOMAIN(fixed_tvpi_zones, D, "fixed_tvpi_zones",
                    CAP_INT64 | CAP_NTOW | CAP_BACKWARD)
