#include "common.hpp"
#include <crab/domains/wrapped_interval_domain.hpp>
using namespace simd;
using D = wrapped_interval_domain<z_number, varname_t>;
// machine-integer semantics: only run under the BV profile
SIM_REGISTER_DOMAIN(wrapped_intervals, D, "wrapped_intervals",
                    CAP_NONREL | CAP_BV)
