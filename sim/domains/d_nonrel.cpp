#include "common.hpp"
#include <crab/domains/combined_congruences.hpp>
#include <crab/domains/congruences.hpp>
#include <crab/domains/constant_domain.hpp>
#include <crab/domains/intervals.hpp>
#include <crab/domains/sign_constant_domain.hpp>
#include <crab/domains/sign_domain.hpp>
using namespace simd;
using intervals_t = ikos::interval_domain<z_number, varname_t>;
SIM_REGISTER_DOMAIN(intervals, intervals_t, "intervals",
                    CAP_EXACT_EXPORT | CAP_BACKWARD | CAP_NONREL | CAP_CORE)
using constants_t = constant_domain<z_number, varname_t>;
SIM_REGISTER_DOMAIN(constants, constants_t, "constants",
                    CAP_NONREL | CAP_CORE | CAP_FINITE)
using signs_t = sign_domain<z_number, varname_t>;
SIM_REGISTER_DOMAIN(signs, signs_t, "signs",
                    CAP_NONREL | CAP_CORE | CAP_FINITE)
using sign_constants_t = sign_constant_domain<z_number, varname_t>;
SIM_REGISTER_DOMAIN(sign_constants, sign_constants_t, "sign_constants",
                    CAP_NONREL | CAP_FINITE)
using congruences_t = ikos::congruence_domain<z_number, varname_t>;
SIM_REGISTER_DOMAIN(congruences, congruences_t, "congruences",
                    CAP_NONREL | CAP_CORE | CAP_BACKWARD)
using ric_t = numerical_congruence_domain<intervals_t>;
SIM_REGISTER_DOMAIN(ric, ric_t, "ric",
                    CAP_NONREL | CAP_BACKWARD)
