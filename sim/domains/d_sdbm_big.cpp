#include "common.hpp"
#include <crab/domains/split_dbm.hpp>
using namespace simd;
using D = split_dbm_domain<z_number, varname_t, G_big>;
SIM_REGISTER_DOMAIN(zones_sdbm_big, D, "zones_sdbm_big",
                    CAP_EXACT_EXPORT | CAP_BACKWARD)
