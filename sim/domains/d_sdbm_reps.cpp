#include "common.hpp"
#include <crab/domains/split_dbm.hpp>
using namespace simd;
using D1 = split_dbm_domain<z_number, varname_t, G_int64_ss>;
SIM_REGISTER_DOMAIN(zones_sdbm_ss, D1, "zones_sdbm_ss",
                    CAP_EXACT_EXPORT | CAP_INT64 | CAP_NTOW | CAP_BACKWARD)
using D2 = split_dbm_domain<z_number, varname_t, G_int64_pt>;
SIM_REGISTER_DOMAIN(zones_sdbm_pt, D2, "zones_sdbm_pt",
                    CAP_EXACT_EXPORT | CAP_INT64 | CAP_NTOW | CAP_BACKWARD)
using D3 = split_dbm_domain<z_number, varname_t, G_int64_ht>;
SIM_REGISTER_DOMAIN(zones_sdbm_ht, D3, "zones_sdbm_ht",
                    CAP_EXACT_EXPORT | CAP_INT64 | CAP_NTOW | CAP_BACKWARD)
