#include "common.hpp"
#include <crab/domains/intervals.hpp>
#include <crab/domains/flat_boolean_domain.hpp>
#include <crab/domains/region_domain.hpp>
using namespace simd;
using base_t = flat_boolean_numerical_domain<ikos::interval_domain<z_number, varname_t>>;
struct Params {
  using number_t = z_number;
  using varname_t = simd::varname_t;
  using varname_allocator_t = crab::var_factory_impl::str_var_alloc_col;
  using base_abstract_domain_t = base_t;
  using base_varname_t = typename base_t::varname_t;
};
using D = region_domain<Params>;
SIM_REGISTER_DOMAIN(rgn_bool_intervals, D, "rgn_bool_intervals", CAP_REGION | CAP_BOOL | CAP_CORE)
