#include "common.hpp"
#include <crab/domains/split_dbm.hpp>
using namespace simd;
using D = split_dbm_domain<z_number, varname_t, G_int64>;
SIM_REGISTER_DOMAIN(zones_sdbm, D, "zones_sdbm",
                    CAP_EXACT_EXPORT | CAP_INT64 | CAP_NTOW | CAP_CORE | CAP_BACKWARD)
