#include "common.hpp"
#include <crab/domains/array_adaptive.hpp>
#include <crab/domains/flat_boolean_domain.hpp>
#include <crab/domains/intervals.hpp>
using namespace simd;
using intervals_t = ikos::interval_domain<z_number, varname_t>;
using D = array_adaptive_domain<flat_boolean_numerical_domain<intervals_t>>;
SIM_REGISTER_DOMAIN(aa_bool_intervals, D, "aa_bool_intervals", CAP_ARRAY | CAP_BOOL | CAP_CORE | CAP_BACKWARD)
