#include "common.hpp"
#include <crab/domains/dis_intervals.hpp>
using namespace simd;
using D = dis_interval_domain<z_number, varname_t>;
SIM_REGISTER_DOMAIN(dis_intervals, D, "dis_intervals",
                    CAP_NONREL | CAP_CORE | CAP_BACKWARD)
