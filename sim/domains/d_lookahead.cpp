#include "common.hpp"
#include <crab/domains/lookahead_widening_domain.hpp>
#include <crab/domains/split_oct.hpp>
using namespace simd;
using soct_t = split_oct_domain<z_number, varname_t, G_int64>;
using D = lookahead_widening_domain<soct_t>;
SIM_REGISTER_DOMAIN(lookahead_oct, D, "lookahead_oct",
                    CAP_INT64 | CAP_NTOW | CAP_BACKWARD)
