// C01 (forward invariants), C02 (verdicts; intra forward and forward+backward),
// C05a (termination as bounded liveness) for the intra-procedural analysers.
#include "prop_common.hpp"

namespace sim {

namespace {

// --------------------------------------------------------------------------
// C01
// --------------------------------------------------------------------------
struct C01Monitor : Monitor {
  IntraFwd &an;
  CrabFunction &fn;
  const Case &cs;
  Stats &st;
  Outcome &out;
  GammaOpts full, cheap;
  std::map<std::string, AbsVal::P> pre, post;
  std::map<const AbsVal *, GammaCache> caches; // dropped whenever the invariants are touched (F4)
  std::map<std::string, int> seen_pre, seen_post;
  std::map<std::string, std::vector<LinCst>> assumptions; // per block
  long checks = 0;
  int full_checks_per_point;

  C01Monitor(IntraFwd &a, CrabFunction &f, const Case &c, Stats &s, Outcome &o)
      : an(a), fn(f), cs(c), st(s), out(o) {
    cheap.use_index = false;
    cheap.probes = false;
    cheap.point_meet = false;
    cheap.export_disj = false;
    full_checks_per_point = 6;
    const DomainInfo *di = find_domain(c.domain);
    if (di && (di->caps & CAP_BV))
      full.bv = cheap.bv = true;
  }
  AbsVal &get(std::map<std::string, AbsVal::P> &m, const std::string &l, bool is_pre) {
    auto it = m.find(l);
    if (it == m.end())
      it = m.insert({l, is_pre ? an.pre(l) : an.post(l)}).first;
    return *it->second;
  }
  bool check(Machine &m, Frame &f, const std::string &label, bool is_pre) {
    if (f.depth != 0)
      return true;
    AbsVal &inv = get(is_pre ? pre : post, label, is_pre);
    int &n = (is_pre ? seen_pre : seen_post)[label];
    Sigma sg = sigma_of(f.st, fn.vars, &m.heap);
    GammaResult g = in_gamma(inv, sg, n < full_checks_per_point ? full : cheap, &caches[&inv]);
    n++;
    checks++;
    if (!g.ok) {
      out.violated = true;
      out.v.property = cs.property;
      out.v.monitor = is_pre ? "pre_invariant" : "post_invariant";
      out.v.item = g.item;
      out.v.where = fn.src->name + ":" + label;
      out.v.detail = g.detail + " ; invariant=" + inv.str();
      return false;
    }
    return true;
  }
  bool on_block_entry(Machine &m, Frame &f, const std::string &label) override {
    if (f.depth == 0) {
      auto it = assumptions.find(label);
      if (it != assumptions.end()) {
        // executions that are not consistent with the assumption map are not
        // executions the property speaks about
        for (auto &c : it->second) {
          lin_cst_t cc = to_lin_cst(c, fn.vars);
          if (m.eval_lin_cst(f, cc) != 1) {
            m.end = EndReason::BLOCKED;
            m.stop = true;
            return false;
          }
        }
      }
    }
    return check(m, f, label, true);
  }
  bool on_block_exit(Machine &m, Frame &f, const std::string &label) override {
    return check(m, f, label, false);
  }
};

Case gen_c01_like(const std::string &prop, Rng &r, const Tier &t,
                  const std::vector<std::string> &doms) {
  Case c;
  c.property = prop;
  c.domain = doms[r.below(doms.size())];
  const DomainInfo *di = find_domain(c.domain);
  GenConfig::Profile prof = GenConfig::NUM;
  if ((di->caps & CAP_BOOL) && r.chance(2, 3))
    prof = GenConfig::NUMBOOL;
  else if (r.chance(1, 4))
    prof = GenConfig::NUMBOOL; // booleans are ignored soundly by purely numerical domains
  GenConfig gc = random_gen_config(r, prof, false);
  restrict_for_domain(gc, *di);
  if (di->caps & CAP_BV) {
    static const int ws[] = {4, 8, 8, 8, 16, 32, 32, 64};
    gc.bv_width = ws[r.below(8)];
  }
  if (prop == "C02" || prop == "C11")
    gc.n_asserts = std::max(gc.n_asserts, 2);
  c.prog = generate_program(r, gc);
  c.params.set("gen", gc.to_json());
  random_fixpo(r, c.params);
  c.params.set("liveness", r.chance(1, 3) ? 1 : 0);
  c.params.set("policy", (long)r.below(3));
  c.params.set("large", gc.large ? 1 : 0);
  c.params.set("huge", gc.huge ? 1 : 0);
  if ((di->caps & CAP_NTOW) && r.chance(1, 4))
    c.params.set("ntow_per_mille", (long)(r.coin() ? 20 : 200));
  random_knobs(r, c.domain, c.params);
  c.exec_seed = r.next() & 0x3fffffffffffffffULL;
  c.n_execs = t.execs;
  return c;
}

Outcome check_c01(const Case &c, Stats &st) {
  Outcome out;
  apply_knobs(c);
  const DomainInfo *di = find_domain(c.domain);
  if (!di) {
    out.refusal = "unknown domain " + c.domain;
    return out;
  }
  std::unique_ptr<CrabProgram> cp;
  std::unique_ptr<dom_t> top;
  std::unique_ptr<IntraFwd> an;
  FixpoCfg fp = fixpo_of(c);
  std::string entry;
  AssumptionMap assume;
  std::map<std::string, std::vector<LinCst>> assume_src;
  GuardResult gr = guarded(tick_budget_for(c.prog), [&]() {
    cp = build_program(c.prog);
    top.reset(di->make_dom());
    CrabFunction &fn = cp->funcs[0];
    entry = c.pstr("alt_entry", fn.cfg->entry());
    // assumption map: explicit constraints on chosen blocks
    if (c.params.has("assumptions")) {
      for (auto &kv : c.params.at("assumptions").o) {
        std::shared_ptr<dom_t> d(new dom_t(top->make_top()));
        lin_cst_sys_t sys;
        for (auto &jc : kv.second.a) {
          LinCst lc = LinCst::from_json(jc);
          assume_src[kv.first].push_back(lc);
          sys += to_lin_cst(lc, fn.vars);
        }
        *d += sys;
        assume[kv.first] = d;
      }
    }
    an = IntraFwd::create(fn, *top, fp, c.pbool("liveness"));
    an->run(entry, top->make_top(), assume);
  });
  st.inc("analysis_ticks", gr.ticks);
  if (!gr.ok) {
    if (gr.budget) {
      out.budget = true;
      st.inc("analysis_budget_exceeded");
    } else {
      out.refusal = gr.msg;
      st.inc("refused");
    }
    return out;
  }
  st.inc("analyses");
  CrabFunction &fn = cp->funcs[0];
  uint64_t h = hash_str(an->wto_str());
  std::vector<mpz_class> pool;
  harvest_constants(c.prog, pool);
  GuardResult mg = guarded(-1, [&]() {
    C01Monitor mon(*an, fn, c, st, out);
    mon.assumptions = assume_src;
    for (int e = 0; e < c.n_execs && !out.violated; e++) {
      RandomScheduler sched(mix64(c.exec_seed + (uint64_t)e));
      configure_scheduler(sched, c, *di, pool);
      MachineConfig mc = machine_config_for(c, *di);
      Machine m(*cp, sched, &mon, mc);
      EndReason er = m.run(fn, Store(), entry);
      account_run(st, m, er);
      h = hash_combine(h, m.history_hash());
      if (out.violated)
        out.trace = trace_of(m);
      if (c.pint("f4") && e == c.n_execs / 2) {
        // benign events on the cached invariants: must not change any meaning
        for (auto &kv : mon.pre) {
          kv.second->normalize();
          kv.second->minimize();
        }
        for (auto &kv : mon.post)
          kv.second->normalize();
        mon.caches.clear();
        st.inc("fault_f4_benign_events");
      }
    }
    st.inc("gamma_checks", mon.checks);
    for (auto &kv : mon.pre)
      h = hash_combine(h, hash_str(kv.first + "=" + kv.second->str()));
  });
  if (!mg.ok && !out.violated) {
    // an exception escaped from a query on a published invariant
    out.refusal = "query failed: " + mg.msg;
    st.inc("refused_in_monitor");
  }
  st.inc("fault_f5_ntow_fired", hooks().unusual_fired);
  st.inc("gamma_refused_queries", hooks().refused_queries);
  st.inc("gamma_tag_checks", hooks().tag_checks);
  st.result_hashes.push_back(h);
  out.hash = h;
  return out;
}

// --------------------------------------------------------------------------
// C02: verdicts of the intra-procedural checkers
// --------------------------------------------------------------------------
Case gen_c02(Rng &r, const Tier &t, const std::vector<std::string> &doms) {
  Case c = gen_c01_like("C02", r, t, doms);
  // verdict source
  unsigned k = (unsigned)r.below(100);
  if (k < 35)
    c.params.set("analyzer", "fwd");
  else {
    c.params.set("analyzer", "fwdbwd");
    c.params.set("backward", r.chance(5, 6) ? 1 : 0);
    c.params.set("max_refine", (long)r.range(0, 5));
    c.params.set("use_refined", r.chance(1, 3) ? 1 : 0);
  }
  return c;
}

Outcome check_c02(const Case &c, Stats &st) {
  Outcome out;
  apply_knobs(c);
  const DomainInfo *di = find_domain(c.domain);
  if (!di) {
    out.refusal = "unknown domain";
    return out;
  }
  std::unique_ptr<CrabProgram> cp;
  std::unique_ptr<dom_t> top;
  std::unique_ptr<IntraFwd> an;
  std::unique_ptr<FwdBwd> fb;
  CheckResult cr;
  FixpoCfg fp = fixpo_of(c);
  bool fwdbwd = c.pstr("analyzer", "fwd") == "fwdbwd";
  GuardResult gr = guarded(tick_budget_for(c.prog), [&]() {
    cp = build_program(c.prog);
    top.reset(di->make_dom());
    CrabFunction &fn = cp->funcs[0];
    AssumptionMap none;
    if (!fwdbwd) {
      an = IntraFwd::create(fn, *top, fp, c.pbool("liveness"));
      an->run(fn.cfg->entry(), top->make_top(), none);
      cr = an->check();
    } else {
      fb = FwdBwd::create(fn, *top);
      fb->run(fn.cfg->entry(), top->make_top(), none, c.pbool("liveness"), fp,
              c.pbool("backward", true), (unsigned)c.pint("max_refine", 5),
              c.pbool("use_refined"));
      cr = fb->check();
    }
  });
  st.inc("analysis_ticks", gr.ticks);
  if (!gr.ok) {
    if (gr.budget) {
      out.budget = true;
      st.inc("analysis_budget_exceeded");
    } else {
      out.refusal = gr.msg;
      st.inc("refused");
    }
    return out;
  }
  st.inc("analyses");
  st.inc(std::string("analyzer_") + (fwdbwd ? "fwdbwd" : "fwd"));
  st.inc("verdict_safe", cr.safe);
  st.inc("verdict_warning", cr.warn);
  st.inc("verdict_unreachable", cr.unreach);
  st.inc("verdict_error", cr.err);
  CrabFunction &fn = cp->funcs[0];
  uint64_t h = 7;
  for (auto &kv : cr.by_id)
    for (auto v : kv.second)
      h = hash_combine(h, (uint64_t)kv.first * 8 + (uint64_t)v);
  std::vector<mpz_class> pool;
  harvest_constants(c.prog, pool);
  VerdictMonitor mon(cr, c, out);
  for (int e = 0; e < c.n_execs && !out.violated; e++) {
    RandomScheduler sched(mix64(c.exec_seed + (uint64_t)e));
    configure_scheduler(sched, c, *di, pool);
    MachineConfig mc = machine_config_for(c, *di);
    Machine m(*cp, sched, &mon, mc);
    EndReason er = m.run(fn, Store());
    account_run(st, m, er);
    h = hash_combine(h, m.history_hash());
    if (out.violated)
      out.trace = trace_of(m);
  }
  st.inc("assertions_judged", mon.judged);
  st.inc("assertions_judged_safe_verdict", mon.judged_safe);
  st.inc("assertions_reached_false", mon.reached_false);
  st.result_hashes.push_back(h);
  out.hash = h;
  return out;
}

// --------------------------------------------------------------------------
// C05a: every analysis terminates within the tick budget (bounded liveness)
// --------------------------------------------------------------------------
Case gen_c05a(Rng &r, const Tier &t, const std::vector<std::string> &doms) {
  Case c = gen_c01_like("C05", r, t, doms);
  c.params.set("part", "termination");
  static const char *ans[] = {"fwd", "fwdbwd", "bwd"};
  c.params.set("analyzer", ans[r.below(3)]);
  c.params.set("backward", 1);
  c.params.set("max_refine", (long)r.range(0, 5));
  c.params.set("use_refined", r.coin() ? 1 : 0);
  c.params.set("good", r.coin() ? 1 : 0);
  c.n_execs = 0;
  return c;
}

Outcome check_c05a(const Case &c, Stats &st) {
  Outcome out;
  apply_knobs(c);
  const DomainInfo *di = find_domain(c.domain);
  if (!di) {
    out.refusal = "unknown domain";
    return out;
  }
  FixpoCfg fp = fixpo_of(c);
  std::string which = c.pstr("analyzer", "fwd");
  long budget = tick_budget_for(c.prog);
  unsigned visits = 0;
  GuardResult gr = guarded(budget, [&]() {
    auto cp = build_program(c.prog);
    std::unique_ptr<dom_t> top(di->make_dom());
    CrabFunction &fn = cp->funcs[0];
    AssumptionMap none;
    if (which == "fwd") {
      auto an = IntraFwd::create(fn, *top, fp, c.pbool("liveness"));
      an->run(fn.cfg->entry(), top->make_top(), none);
      visits = an->max_cycle_visits();
    } else if (which == "fwdbwd") {
      auto fb = FwdBwd::create(fn, *top);
      fb->run(fn.cfg->entry(), top->make_top(), none, c.pbool("liveness"), fp, true,
              (unsigned)c.pint("max_refine", 5), c.pbool("use_refined"));
    } else {
      if (!fn.cfg->has_exit())
        return;
      auto b = Backward::create(fn, *top, c.pbool("good"), fp);
      b->run(c.pbool("good") ? top->make_top() : top->make_bottom(), nullptr);
    }
  });
  st.inc("analysis_ticks", gr.ticks);
  st.inc("analyzer_" + which);
  st.c["max_ticks_one_run"] = std::max(st.c["max_ticks_one_run"], gr.ticks);
  st.c["max_cycle_visits"] = std::max<long>(st.c["max_cycle_visits"], visits);
  out.hash = hash_combine((uint64_t)gr.ticks, visits);
  st.result_hashes.push_back(out.hash);
  if (gr.budget) {
    out.violated = true;
    out.v.property = "C05";
    out.v.monitor = "termination";
    out.v.item = which;
    out.v.where = c.domain;
    out.v.detail = "analysis exceeded the step budget of " + std::to_string(budget) +
                   " ticks (" + fp.str() + ")";
    return out;
  }
  if (!gr.ok) {
    out.refusal = gr.msg;
    st.inc("refused");
    return out;
  }
  st.inc("analyses");
  return out;
}

std::vector<std::string> num_domains(const Tier &t) {
  // the thorough tier also runs the machine-integer domains (BV profile of the
  // machine: gen_c01_like draws a width when the domain has CAP_BV)
  return domains_with(0, CAP_ARRAY | CAP_REGION | (t.thorough ? 0 : CAP_BV), !t.thorough);
}
// C13: the machine-integer domains under the BV profile of the machine
std::vector<std::string> bv_domains(const Tier &) {
  return domains_with(CAP_BV, CAP_ARRAY | CAP_REGION, false);
}

PropertyRegistrar reg_c01({"C01", "sim_prog",
                           [](Rng &r, const Tier &t, const std::vector<std::string> &d) {
                             Case c = gen_c01_like("C01", r, t, d);
                             if (r.chance(1, 5))
                               c.params.set("f4", 1);
                             add_alt_entry_and_assumptions(r, c);
                             return c;
                           },
                           check_c01, num_domains});
PropertyRegistrar reg_c02({"C02", "sim_prog", gen_c02, check_c02, num_domains});
// C13 (program half): forward invariants and verdicts of the wrapped-interval
// domain against executions under two's-complement semantics
PropertyRegistrar reg_c13a({"C13a", "sim_prog",
                            [](Rng &r, const Tier &t, const std::vector<std::string> &d) {
                              Case c = gen_c01_like("C13", r, t, d);
                              c.params.set("part", "invariants");
                              add_alt_entry_and_assumptions(r, c);
                              return c;
                            },
                            check_c01, bv_domains});
PropertyRegistrar reg_c13b({"C13b", "sim_prog",
                            [](Rng &r, const Tier &t, const std::vector<std::string> &d) {
                              Case c = gen_c02(r, t, d);
                              c.property = "C13";
                              c.params.set("part", "verdicts");
                              // KF9 (labels under use_refined_invariants) is a defect of the
                              // refining analyser, not of the domain this property is about
                              c.params.set("use_refined", 0);
                              return c;
                            },
                            check_c02, bv_domains});
PropertyRegistrar reg_c05a({"C05a", "sim_prog", gen_c05a, check_c05a, num_domains});

} // namespace
} // namespace sim
