// SimIR: the simulator's own small program representation. Programs are
// generated, stored, minimised and serialised in this form; the real crab
// CFGs / call graph are built from it through crab's public builder API
// (build.cpp). No crab headers here.
#pragma once
#include "util.hpp"
#include <gmpxx.h>
#include <set>

namespace sim {

enum class Ty { INT, BOOL, REF, ARR_INT, ARR_BOOL, RGN_INT, RGN_BOOL, RGN_REF };

inline const char *ty_name(Ty t) {
  switch (t) {
  case Ty::INT:
    return "int";
  case Ty::BOOL:
    return "bool";
  case Ty::REF:
    return "ref";
  case Ty::ARR_INT:
    return "arr_int";
  case Ty::ARR_BOOL:
    return "arr_bool";
  case Ty::RGN_INT:
    return "rgn_int";
  case Ty::RGN_BOOL:
    return "rgn_bool";
  case Ty::RGN_REF:
    return "rgn_ref";
  }
  return "?";
}
inline Ty ty_parse(const std::string &s) {
  for (Ty t : {Ty::INT, Ty::BOOL, Ty::REF, Ty::ARR_INT, Ty::ARR_BOOL, Ty::RGN_INT, Ty::RGN_BOOL,
               Ty::RGN_REF})
    if (s == ty_name(t))
      return t;
  return Ty::INT;
}

struct VarDecl {
  std::string name;
  Ty ty = Ty::INT;
  int width = 32; // for INT (and the element width of int arrays/regions)
};

inline std::string zs(const mpz_class &z) { return z.get_str(); }

// sum coef*var + cst
struct LinExp {
  std::vector<std::pair<std::string, mpz_class>> terms;
  mpz_class cst = 0;
  LinExp() {}
  LinExp(const mpz_class &c) : cst(c) {}
  static LinExp var(const std::string &v, const mpz_class &coef = 1) {
    LinExp e;
    e.terms.push_back({v, coef});
    return e;
  }
  bool is_const() const { return terms.empty(); }
  bool is_var() const { return terms.size() == 1 && terms[0].second == 1 && cst == 0; }
  void add_term(const std::string &v, const mpz_class &coef) {
    if (coef == 0)
      return;
    for (auto &t : terms)
      if (t.first == v) {
        t.second += coef;
        if (t.second == 0) {
          std::vector<std::pair<std::string, mpz_class>> nt;
          for (auto &u : terms)
            if (u.first != v)
              nt.push_back(u);
          terms = nt;
        }
        return;
      }
    terms.push_back({v, coef});
  }
  std::string str() const {
    std::string r;
    for (auto &t : terms) {
      if (!r.empty())
        r += (t.second < 0 ? "" : "+");
      if (t.second == 1)
        r += t.first;
      else if (t.second == -1)
        r += "-" + t.first;
      else
        r += zs(t.second) + "*" + t.first;
    }
    if (r.empty())
      return zs(cst);
    if (cst != 0)
      r += (cst < 0 ? "" : "+") + zs(cst);
    return r;
  }
  Json to_json() const {
    Json j = Json::arr();
    j.push(zs(cst));
    for (auto &t : terms) {
      j.push(t.first);
      j.push(zs(t.second));
    }
    return j;
  }
  static LinExp from_json(const Json &j) {
    LinExp e;
    if (j.kind != Json::ARR || j.a.empty())
      return e;
    e.cst = mpz_class(j.a[0].as_str("0"));
    for (size_t k = 1; k + 1 < j.a.size(); k += 2)
      e.terms.push_back({j.a[k].as_str(), mpz_class(j.a[k + 1].as_str("0"))});
    return e;
  }
};

// e (kind) 0
struct LinCst {
  enum Kind { LEQ, LT, EQ, NEQ } kind = LEQ;
  LinExp e;
  std::string str() const {
    static const char *ops[] = {"<=", "<", "==", "!="};
    return e.str() + " " + ops[kind] + " 0";
  }
  Json to_json() const {
    Json j = Json::arr();
    j.push((int)kind);
    j.push(e.to_json());
    return j;
  }
  static LinCst from_json(const Json &j) {
    LinCst c;
    if (j.kind == Json::ARR && j.a.size() == 2) {
      c.kind = (Kind)j.a[0].as_int();
      c.e = LinExp::from_json(j.a[1]);
    }
    return c;
  }
  bool is_true_const() const {
    if (!e.is_const())
      return false;
    switch (kind) {
    case LEQ:
      return e.cst <= 0;
    case LT:
      return e.cst < 0;
    case EQ:
      return e.cst == 0;
    case NEQ:
      return e.cst != 0;
    }
    return false;
  }
};

// Statement opcodes. The positional meaning of v (variables), e (expressions),
// n (numbers) is documented next to each opcode.
enum class Op {
  BINOP,      // v[0] = v[1] k (v[2] | n[0])     k in add sub mul sdiv udiv srem urem and or xor shl lshr ashr
  ASSIGN,     // v[0] = e[0]
  ASSUME,     // assume(c)
  ASSERT,     // assert(c)  id
  SELECT,     // v[0] = ite(c, e[0], e[1])
  HAVOC,      // havoc(v[0])  id = tag
  UNREACH,    // unreachable
  CAST,       // v[0] = k(v[1])   k in trunc sext zext  (dst = v[0], src = v[1])
  BASSIGN_CST, // v[0] = (c)
  BASSIGN_VAR, // v[0] = [not] v[1]      f = negated
  BBINOP,     // v[0] = v[1] k v[2]      k in and or xor
  BASSUME,    // assume([not] v[0])      f = negated
  BASSERT,    // assert(v[0])  id
  BSELECT,    // v[0] = ite(v[1], v[2], v[3])
  ARR_INIT,   // v[0][e[0]..e[1]] := e[2]   elem size n[0]
  ARR_STORE,  // v[0][e[0]] := e[1]  elem size n[0]  f = strong update
  ARR_STORE_RANGE, // v[0][e[0]..e[1]] := e[2]  elem size n[0]
  ARR_LOAD,   // v[0] = v[1][e[0]]  elem size n[0]
  ARR_ASSIGN, // v[0] = v[1]
  RGN_INIT,   // region_init(v[0])
  RGN_COPY,   // region_copy(v[0], v[1])
  MAKE_REF,   // v[0] = make_ref(v[1], size n[0], alloc site n[1])
  REMOVE_REF, // remove_ref(region v[0], ref v[1])
  LOAD_REF,   // v[0] = load_from_ref(ref v[1], region v[2])
  STORE_REF,  // store_to_ref(ref v[0], region v[1], value (v[2] | n[0]))
  GEP_REF,    // (v[0], region v[1]) = gep_ref(v[2], region v[3]) + e[0]
  ASSUME_REF, // assume(ref cst: k in null notnull eq neq lt le gt ge; v[0] (,v[1]) ; offset n[0])
  ASSERT_REF, // assert(ref cst) id
  BASSIGN_REFCST, // v[0] = (ref cst on v[1] (,v[2]), k, n[0])
  SELECT_REF, // (v[0], rgn v[1]) = ite(v[2], (v[3]|null, rgn v[4]), (v[5]|null, rgn v[6])) ; "" = null
  CALL,       // outs = call k(args): v = outs ++ args, n[0] = number of outs
  INTRINSIC   // crab_intrinsic(k, v...) without outputs (value_partition_start / value_partition_end)
};

static const char *const op_names[] = {
    "binop",     "assign",     "assume",    "assert",          "select",   "havoc",
    "unreach",   "cast",       "bassign_c", "bassign_v",       "bbinop",   "bassume",
    "bassert",   "bselect",    "arr_init",  "arr_store",       "arr_store_range",
    "arr_load",  "arr_assign", "rgn_init",  "rgn_copy",        "make_ref", "remove_ref",
    "load_ref",  "store_ref",  "gep_ref",   "assume_ref",      "assert_ref",
    "bassign_r", "select_ref", "call",     "intrinsic"};

struct Stmt {
  Op op = Op::UNREACH;
  std::vector<std::string> v;
  std::vector<LinExp> e;
  std::vector<mpz_class> n;
  LinCst c;
  std::string k;
  bool f = false;
  int id = -1;

  bool is_assert() const {
    return op == Op::ASSERT || op == Op::BASSERT || op == Op::ASSERT_REF;
  }

  std::string str() const {
    std::string r = op_names[(int)op];
    if (!k.empty())
      r += "." + k;
    r += "(";
    bool first = true;
    auto sep = [&]() {
      if (!first)
        r += ", ";
      first = false;
    };
    for (auto &x : v) {
      sep();
      r += x.empty() ? "null" : x;
    }
    for (auto &x : e) {
      sep();
      r += "[" + x.str() + "]";
    }
    for (auto &x : n) {
      sep();
      r += "#" + zs(x);
    }
    if (op == Op::ASSUME || op == Op::ASSERT || op == Op::SELECT || op == Op::BASSIGN_CST) {
      sep();
      r += "{" + c.str() + "}";
    }
    if (f) {
      sep();
      r += "f";
    }
    if (id >= 0) {
      sep();
      r += "id=" + std::to_string(id);
    }
    return r + ")";
  }

  Json to_json() const {
    Json j = Json::obj();
    j.set("op", op_names[(int)op]);
    if (!k.empty())
      j.set("k", k);
    if (!v.empty()) {
      Json a = Json::arr();
      for (auto &x : v)
        a.push(x);
      j.set("v", a);
    }
    if (!e.empty()) {
      Json a = Json::arr();
      for (auto &x : e)
        a.push(x.to_json());
      j.set("e", a);
    }
    if (!n.empty()) {
      Json a = Json::arr();
      for (auto &x : n)
        a.push(zs(x));
      j.set("n", a);
    }
    if (op == Op::ASSUME || op == Op::ASSERT || op == Op::SELECT || op == Op::BASSIGN_CST)
      j.set("c", c.to_json());
    if (f)
      j.set("f", true);
    if (id >= 0)
      j.set("id", id);
    return j;
  }
  static Stmt from_json(const Json &j) {
    Stmt s;
    std::string o = j.at("op").as_str();
    for (size_t i = 0; i < sizeof(op_names) / sizeof(op_names[0]); i++)
      if (o == op_names[i])
        s.op = (Op)i;
    s.k = j.at("k").as_str();
    for (auto &x : j.at("v").a)
      s.v.push_back(x.as_str());
    for (auto &x : j.at("e").a)
      s.e.push_back(LinExp::from_json(x));
    for (auto &x : j.at("n").a)
      s.n.push_back(mpz_class(x.as_str("0")));
    if (j.has("c"))
      s.c = LinCst::from_json(j.at("c"));
    s.f = j.at("f").as_bool();
    s.id = j.has("id") ? (int)j.at("id").as_int() : -1;
    return s;
  }
};

struct Block {
  std::string label;
  std::vector<Stmt> stmts;
  std::vector<std::string> succs;
};

struct Function {
  std::string name; // "" => no function declaration (plain cfg)
  std::vector<std::string> inputs, outputs;
  std::vector<VarDecl> vars;
  std::vector<Block> blocks; // blocks[0] is the entry
  std::string exit;          // "" => no exit block

  const VarDecl *var(const std::string &n) const {
    for (auto &v : vars)
      if (v.name == n)
        return &v;
    return nullptr;
  }
  Block *block(const std::string &l) {
    for (auto &b : blocks)
      if (b.label == l)
        return &b;
    return nullptr;
  }
  const Block *block(const std::string &l) const {
    for (auto &b : blocks)
      if (b.label == l)
        return &b;
    return nullptr;
  }
  size_t num_stmts() const {
    size_t n = 0;
    for (auto &b : blocks)
      n += b.stmts.size();
    return n;
  }

  std::string str() const {
    std::string r;
    if (!name.empty()) {
      r += "function " + name + "(";
      for (auto &i : inputs)
        r += i + " ";
      r += ") -> (";
      for (auto &o : outputs)
        r += o + " ";
      r += ")\n";
    }
    r += "  vars:";
    for (auto &v : vars)
      r += " " + v.name + ":" + ty_name(v.ty) + (v.ty == Ty::INT && v.width != 32 ? std::to_string(v.width) : "");
    r += "\n";
    for (auto &b : blocks) {
      r += "  " + b.label + (b.label == exit ? " [exit]" : "") + ":\n";
      for (auto &s : b.stmts)
        r += "    " + s.str() + "\n";
      r += "    goto";
      for (auto &s : b.succs)
        r += " " + s;
      r += "\n";
    }
    return r;
  }

  Json to_json() const {
    Json j = Json::obj();
    j.set("name", name);
    Json ji = Json::arr(), jo = Json::arr(), jv = Json::arr(), jb = Json::arr();
    for (auto &i : inputs)
      ji.push(i);
    for (auto &o : outputs)
      jo.push(o);
    for (auto &v : vars) {
      Json x = Json::arr();
      x.push(v.name);
      x.push(ty_name(v.ty));
      x.push(v.width);
      jv.push(x);
    }
    for (auto &b : blocks) {
      Json x = Json::obj();
      x.set("label", b.label);
      Json st = Json::arr(), su = Json::arr();
      for (auto &s : b.stmts)
        st.push(s.to_json());
      for (auto &s : b.succs)
        su.push(s);
      x.set("stmts", st);
      x.set("succs", su);
      jb.push(x);
    }
    j.set("inputs", ji);
    j.set("outputs", jo);
    j.set("vars", jv);
    j.set("exit", exit);
    j.set("blocks", jb);
    return j;
  }
  static Function from_json(const Json &j) {
    Function f;
    f.name = j.at("name").as_str();
    for (auto &x : j.at("inputs").a)
      f.inputs.push_back(x.as_str());
    for (auto &x : j.at("outputs").a)
      f.outputs.push_back(x.as_str());
    for (auto &x : j.at("vars").a) {
      VarDecl v;
      v.name = x.a[0].as_str();
      v.ty = ty_parse(x.a[1].as_str());
      v.width = (int)x.a[2].as_int(32);
      f.vars.push_back(v);
    }
    f.exit = j.at("exit").as_str();
    for (auto &x : j.at("blocks").a) {
      Block b;
      b.label = x.at("label").as_str();
      for (auto &s : x.at("stmts").a)
        b.stmts.push_back(Stmt::from_json(s));
      for (auto &s : x.at("succs").a)
        b.succs.push_back(s.as_str());
      f.blocks.push_back(b);
    }
    return f;
  }
};

struct Program {
  std::vector<Function> funcs; // funcs[0] is the root / main
  const Function *func(const std::string &n) const {
    for (auto &f : funcs)
      if (f.name == n)
        return &f;
    return nullptr;
  }
  std::string str() const {
    std::string r;
    for (auto &f : funcs)
      r += f.str();
    return r;
  }
  Json to_json() const {
    Json j = Json::arr();
    for (auto &f : funcs)
      j.push(f.to_json());
    return j;
  }
  static Program from_json(const Json &j) {
    Program p;
    for (auto &x : j.a)
      p.funcs.push_back(Function::from_json(x));
    return p;
  }
  uint64_t hash() const { return hash_str(to_json().dump()); }
};

} // namespace sim
