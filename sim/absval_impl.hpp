// AbsValImpl<D>: forwards the simulator interface to a real crab domain D.
#pragma once
#include "absval.hpp"
#include <crab/domains/generic_abstract_domain.hpp>

namespace sim {

template <class D> struct AbsValImpl final : AbsVal {
  D d;
  explicit AbsValImpl(const D &x) : d(x) {}
  explicit AbsValImpl(D &&x) : d(std::move(x)) {}
  static const D &get(const AbsVal &o) { return static_cast<const AbsValImpl<D> &>(o).d; }
  static D &get(AbsVal &o) { return static_cast<AbsValImpl<D> &>(o).d; }
  static P mk(D &&x) { return P(new AbsValImpl<D>(std::move(x))); }

  P clone() const override { return P(new AbsValImpl<D>(d)); }
  void copy_from(const AbsVal &o) override { d = get(o); }
  void move_from(AbsVal &o) override { d = std::move(get(o)); }
  P make_top() const override { return mk(d.make_top()); }
  P make_bottom() const override { return mk(d.make_bottom()); }
  void set_to_top() override { d.set_to_top(); }
  void set_to_bottom() override { d.set_to_bottom(); }
  bool is_bottom() const override { return d.is_bottom(); }
  bool is_top() const override { return d.is_top(); }
  bool leq(const AbsVal &o) const override { return d <= get(o); }
  P join(const AbsVal &o) const override { return mk(d | get(o)); }
  P meet(const AbsVal &o) const override { return mk(d & get(o)); }
  P widen(const AbsVal &o) const override { return mk(d || get(o)); }
  P narrow(const AbsVal &o) const override { return mk(d && get(o)); }
  P widen_thresholds(const AbsVal &o, const crab::thresholds<number_t> &ts) const override {
    return mk(d.widening_thresholds(get(o), ts));
  }
  void join_with(const AbsVal &o) override { d |= get(o); }
  void meet_with(const AbsVal &o) override { d &= get(o); }

  void apply(crab::domains::arith_operation_t op, const var_t &x, const var_t &y,
             const var_t &z) override {
    d.apply(op, x, y, z);
  }
  void apply(crab::domains::arith_operation_t op, const var_t &x, const var_t &y,
             number_t k) override {
    d.apply(op, x, y, k);
  }
  void apply(crab::domains::bitwise_operation_t op, const var_t &x, const var_t &y,
             const var_t &z) override {
    d.apply(op, x, y, z);
  }
  void apply(crab::domains::bitwise_operation_t op, const var_t &x, const var_t &y,
             number_t k) override {
    d.apply(op, x, y, k);
  }
  void apply(crab::domains::int_conv_operation_t op, const var_t &dst, const var_t &src) override {
    d.apply(op, dst, src);
  }
  void assign(const var_t &x, const lin_exp_t &e) override { d.assign(x, e); }
  void weak_assign(const var_t &x, const lin_exp_t &e) override { d.weak_assign(x, e); }
  void add_constraints(const lin_cst_sys_t &csts) override { d += csts; }
  bool entails(const lin_cst_t &c) const override { return d.entails(c); }
  void select(const var_t &lhs, const lin_cst_t &cond, const lin_exp_t &e1,
              const lin_exp_t &e2) override {
    d.select(lhs, cond, e1, e2);
  }
  void assign_bool_cst(const var_t &lhs, const lin_cst_t &rhs) override {
    d.assign_bool_cst(lhs, rhs);
  }
  void assign_bool_var(const var_t &lhs, const var_t &rhs, bool is_not) override {
    d.assign_bool_var(lhs, rhs, is_not);
  }
  void apply_binary_bool(crab::domains::bool_operation_t op, const var_t &x, const var_t &y,
                         const var_t &z) override {
    d.apply_binary_bool(op, x, y, z);
  }
  void assume_bool(const var_t &v, bool is_negated) override { d.assume_bool(v, is_negated); }
  void select_bool(const var_t &lhs, const var_t &cond, const var_t &b1,
                   const var_t &b2) override {
    d.select_bool(lhs, cond, b1, b2);
  }
  void forget(const var_t &v) override { d -= v; }
  void forget(const std::vector<var_t> &vs) override { d.forget(vs); }
  void project(const std::vector<var_t> &vs) override { d.project(vs); }
  void rename(const std::vector<var_t> &from, const std::vector<var_t> &to) override {
    d.rename(from, to);
  }
  void expand(const var_t &v, const var_t &nv) override { d.expand(v, nv); }
  void normalize() override { d.normalize(); }
  void minimize() override { d.minimize(); }
  interval_t index(const var_t &v) override { return d[v]; }
  interval_t at(const var_t &v) const override { return d.at(v); }
  lin_cst_sys_t to_lin() const override { return d.to_linear_constraint_system(); }
  disj_lin_cst_sys_t to_disj() const override {
    return d.to_disjunctive_linear_constraint_system();
  }
  crab::domains::boolean_value is_null_ref(const var_t &ref) override {
    return d.is_null_ref(ref);
  }
  bool get_allocation_sites(const var_t &ref, std::vector<crab::tag> &out) override {
    return d.get_allocation_sites(ref, out);
  }
  bool get_tags(const var_t &rgn, const var_t &ref, std::vector<uint64_t> &out) override {
    return d.get_tags(rgn, ref, out);
  }
  void intrinsic(const std::string &name, const std::vector<var_t> &inputs) override {
    typename D::variable_or_constant_vector_t in;
    for (auto &v : inputs)
      in.push_back(typename D::variable_or_constant_t(v));
    typename D::variable_vector_t outs;
    d.intrinsic(name, in, outs);
  }
  std::string str() const override {
    crab::crab_string_os os;
    D copy(d); // printing may normalise
    os << copy;
    return os.str();
  }
  std::string domain_name() const override { return d.domain_name(); }
};

// Registration helper used by every domain TU.
template <class D> inline DomainInfo make_domain_info(const std::string &name, unsigned caps) {
  DomainInfo di;
  di.name = name;
  di.caps = caps;
  di.make_raw = []() { return AbsVal::P(new AbsValImpl<D>(D())); };
  di.make_wrapped = []() {
    D top;
    return wrap_dom(dom_t(top));
  };
  di.make_dom = []() {
    D top;
    return new dom_t(top);
  };
  return di;
}

#define SIM_REGISTER_DOMAIN(ID, TYPE, NAME, CAPS)                                                \
  static ::sim::DomainRegistrar sim_reg_##ID(::sim::make_domain_info<TYPE>(NAME, CAPS));

} // namespace sim
