#include "machine.hpp"

namespace sim {

const char *end_reason_name(EndReason r) {
  switch (r) {
  case EndReason::EXIT:
    return "exit";
  case EndReason::FAILED_ASSERT:
    return "failed_assert";
  case EndReason::BLOCKED:
    return "blocked";
  case EndReason::OUTSIDE:
    return "outside";
  case EndReason::STEP_CAP:
    return "step_cap";
  case EndReason::DEPTH_CAP:
    return "depth_cap";
  case EndReason::NO_EXIT:
    return "no_exit";
  case EndReason::ABORT:
    return "abort";
  }
  return "?";
}

std::string Value::str() const {
  switch (k) {
  case INT:
    return i.get_str();
  case BOOL:
    return b ? "true" : "false";
  case REF:
    return obj == 0 ? std::string("null") : "&" + std::to_string(obj) + "@" + i.get_str();
  case ARR: {
    if (!arr || !arr->inited)
      return "arr?";
    std::string r = "arr[" + arr->lb.get_str() + ".." + arr->ub.get_str() + "/" +
                    std::to_string(arr->esz) + "]{";
    for (auto &c : arr->cells)
      r += c.first.get_str() + ":" + c.second.get_str() + " ";
    return r + "}";
  }
  case RGN: {
    std::string r = "rgn{";
    if (rgn)
      for (auto &c : rgn->cells)
        r += c.first.get_str() + ":" + c.second.i.get_str() + " ";
    return r + "}";
  }
  default:
    return "undef";
  }
}

std::string Event::str() const {
  static const char *names[] = {"block", "cond", "assert", "havoc", "call", "ret", "end", "fault", "select"};
  std::string r = names[k];
  r += " " + a;
  if (k == COND || k == ASSERT || k == SELECT)
    r += " #" + std::to_string(id) + (outcome ? " T" : " F");
  if (k == HAVOC || k == FAULT)
    r += " #" + std::to_string(id) + " = " + val;
  return r;
}

uint64_t Machine::history_hash() const {
  uint64_t h = 0x1234;
  for (auto &e : events) {
    h = hash_combine(h, (uint64_t)e.k);
    h = hash_combine(h, hash_str(e.a));
    h = hash_combine(h, (uint64_t)e.id * 2 + e.outcome);
    h = hash_combine(h, hash_str(e.val));
  }
  return h;
}

std::string Machine::next_key(const std::string &base) {
  int n = occ[base]++;
  return base + "#" + std::to_string(n);
}

mpz_class bv_wrap(const mpz_class &v, unsigned w) {
  if (w == 0)
    return v;
  mpz_class r;
  mpz_fdiv_r_2exp(r.get_mpz_t(), v.get_mpz_t(), w); // in [0, 2^w)
  if (mpz_tstbit(r.get_mpz_t(), w - 1)) {
    mpz_class m;
    mpz_ui_pow_ui(m.get_mpz_t(), 2, w);
    r -= m;
  }
  return r;
}
mpz_class bv_unsigned(const mpz_class &v, unsigned w) {
  mpz_class r;
  mpz_fdiv_r_2exp(r.get_mpz_t(), v.get_mpz_t(), w);
  return r;
}

// BV profile: the meaning of a linear constraint over machine integers. crab does
// not define it beyond "wrapint is interpreted as a signed mathematical integer"
// (wrapped_interval_domain.hpp), so a constraint is only judged in a state where
// every sensible reading gives the same truth value:
//  (a) one variable with coefficient +-1 (a bound or a (dis)equality with a constant):
//      judged when the constant on the other side fits the signed range of the width;
//  (b) otherwise: the mathematical reading (signed values, no wrap-around) and the
//      modular reading (the expression reduced modulo 2^w, compared as a signed
//      number with 0) must agree.
// Returns false when the constraint is ambiguous in this state.
static bool truth_of(lin_cst_t::kind_t k, const mpz_class &v) {
  switch (k) {
  case lin_cst_t::EQUALITY:
    return v == 0;
  case lin_cst_t::DISEQUATION:
    return v != 0;
  case lin_cst_t::INEQUALITY:
    return v <= 0;
  default:
    return v < 0;
  }
}
static bool bv_cst_unambiguous(const Frame &f, const lin_cst_t &c, bool strict) {
  unsigned w = 0, nterms = 0;
  mpz_class total = to_mpz(c.expression().constant()), only_coef;
  for (auto it = c.expression().begin(), et = c.expression().end(); it != et; ++it) {
    auto comp = *it;
    auto ty = comp.second.get_type();
    if (!ty.is_integer())
      return false;
    unsigned vw = ty.get_integer_bitwidth();
    if (w == 0)
      w = vw;
    else if (w != vw)
      return false;
    const Value *v = f.st.get(comp.second);
    if (!v || v->k != Value::INT)
      return false;
    total += to_mpz(comp.first) * v->i;
    only_coef = to_mpz(comp.first);
    nterms++;
  }
  if (w == 0)
    return true; // constant constraint
  mpz_class lim;
  mpz_ui_pow_ui(lim.get_mpz_t(), 2, w - 1);
  if (nterms == 1 && (only_coef == 1 || only_coef == -1)) {
    mpz_class bound = -to_mpz(c.expression().constant()) * only_coef; // x (op) bound
    return bound >= -lim && bound < lim;
  }
  // crab reduces every constant modulo 2^w when it builds wrapped intervals: a
  // constraint with a coefficient or a constant outside the signed range has no
  // agreed meaning
  // (terms move from one side to the other, so the negation must fit as well)
  mpz_class k0 = to_mpz(c.expression().constant());
  if (abs(k0) >= lim)
    return false;
  for (auto it = c.expression().begin(), et = c.expression().end(); it != et; ++it)
    if (abs(to_mpz((*it).first)) >= lim)
      return false;
  if (strict) {
    // neutraliser of KF61: no sub-sum of the constraint can wrap around
    mpz_class acc = abs(k0);
    for (auto it = c.expression().begin(), et = c.expression().end(); it != et; ++it)
      acc += abs(to_mpz((*it).first) * f.st.get((*it).second)->i);
    if (acc >= lim)
      return false;
  }
  return truth_of(c.kind(), total) == truth_of(c.kind(), bv_wrap(total, w));
}

bool Machine::eval_lin_exp(const Frame &f, const lin_exp_t &e, mpz_class &out) {
  out = to_mpz(e.constant());
  for (auto it = e.begin(), et = e.end(); it != et; ++it) {
    auto comp = *it;
    const Value *v = f.st.get(comp.second);
    if (!v)
      return false;
    mpz_class x;
    if (v->k == Value::INT)
      x = v->i;
    else if (v->k == Value::BOOL)
      x = v->b ? 1 : 0;
    else
      return false;
    out += to_mpz(comp.first) * x;
  }
  return true;
}

int Machine::eval_lin_cst(const Frame &f, const lin_cst_t &c) {
  mpz_class v;
  if (cfg.bv && !bv_cst_unambiguous(f, c, cfg.bv_strict))
    return -1;
  if (!eval_lin_exp(f, c.expression(), v))
    return -1;
  switch (c.kind()) {
  case lin_cst_t::EQUALITY:
    return v == 0;
  case lin_cst_t::DISEQUATION:
    return v != 0;
  case lin_cst_t::INEQUALITY:
    return v <= 0;
  case lin_cst_t::STRICT_INEQUALITY:
    return v < 0;
  }
  return -1;
}

int Machine::eval_ref_cst(const Frame &f, const ref_cst_t &c) {
  if (c.is_tautology())
    return 1;
  if (c.is_contradiction())
    return 0;
  const Value *a = f.st.get(c.lhs());
  if (!a || a->k != Value::REF)
    return -1;
  if (c.is_unary()) {
    bool isnull = (a->obj == 0);
    if (c.is_equality())
      return isnull;
    if (c.is_disequality())
      return !isnull;
    // orderings against null: addresses are positive, null is 0
    if (c.is_less_or_equal_than())
      return isnull;
    if (c.is_less_than())
      return 0;
    if (c.is_greater_or_equal_than())
      return 1;
    if (c.is_greater_than())
      return !isnull;
    return -1;
  }
  const Value *b = f.st.get(c.rhs());
  if (!b || b->k != Value::REF)
    return -1;
  mpz_class off = to_mpz(c.offset());
  // lhs op rhs + offset
  if (c.is_equality() || c.is_disequality()) {
    bool eq;
    if (a->obj == 0 || b->obj == 0) {
      if (off != 0)
        return -1; // arithmetic on null: outside
      eq = (a->obj == 0 && b->obj == 0);
    } else if (a->obj == b->obj)
      eq = (a->i == b->i + off);
    else {
      // different objects: equal only if addresses coincide, which the
      // allocator makes impossible inside object bounds; outside otherwise
      eq = false;
      mpz_class t = b->i + off;
      const HeapObj &ob = heap[b->obj];
      if (t < ob.base || t >= ob.base + ob.size)
        return -1;
      const HeapObj &oa = heap[a->obj];
      if (a->i < oa.base || a->i >= oa.base + oa.size)
        return -1;
    }
    return c.is_equality() ? eq : !eq;
  }
  // orderings only inside one object
  if (a->obj == 0 || b->obj == 0 || a->obj != b->obj)
    return -1;
  mpz_class l = a->i, r = b->i + off;
  if (c.is_less_or_equal_than())
    return l <= r;
  if (c.is_less_than())
    return l < r;
  if (c.is_greater_or_equal_than())
    return l >= r;
  if (c.is_greater_than())
    return l > r;
  return -1;
}

bool Machine::prefix_enabled(const Frame &f, const std::string &label) {
  block_t &b = f.fn->cfg->get_node(label);
  for (auto &s : b) {
    if (s.is_assume()) {
      auto &a = static_cast<block_t::assume_t &>(s);
      if (eval_lin_cst(f, a.constraint()) == 0)
        return false;
    } else if (s.is_bool_assume()) {
      auto &a = static_cast<block_t::bool_assume_t &>(s);
      const Value *v = f.st.get(a.cond());
      if (v && v->k == Value::BOOL && (v->b == a.is_negated()))
        return false;
    } else if (s.is_ref_assume()) {
      auto &a = static_cast<block_t::assume_ref_t &>(s);
      if (eval_ref_cst(f, a.constraint()) == 0)
        return false;
    } else if (s.is_unreachable()) {
      return false;
    } else
      break;
  }
  return true;
}

void Machine::init_scalars(Frame &f) {
  for (auto &kv : f.fn->vars) {
    const var_t &v = kv.second;
    if (f.st.get(v))
      continue;
    auto ty = v.get_type();
    if (ty.is_integer()) {
      mpz_class d = sched.draw_int(*this, next_key("init:" + kv.first), (int)ty.get_integer_bitwidth());
      f.st.set(v, Value::mk_int(cfg.bv ? bv_wrap(d, ty.get_integer_bitwidth()) : d));
    } else if (ty.is_bool()) {
      f.st.set(v, Value::mk_bool(sched.draw_bool(*this, next_key("init:" + kv.first))));
    } else if (ty.is_reference()) {
      Value r;
      r.k = Value::REF; // null
      f.st.set(v, r);
    }
  }
}

namespace {

struct Exec : public crab::cfg::statement_visitor<label_t, number_t, varname_t> {
  Machine &m;
  Frame &f;
  const std::string &label;
  int idx = 0;
  Exec(Machine &mm, Frame &ff, const std::string &l) : m(mm), f(ff), label(l) {}

  bool too_big(const mpz_class &v) {
    return (long)mpz_sizeinbase(v.get_mpz_t(), 2) > m.cfg.magnitude_bits;
  }
  bool get_int(const var_t &v, mpz_class &out) {
    const Value *x = f.st.get(v);
    if (!x || x->k != Value::INT) {
      m.outside("read of non-integer " + v.name().str());
      return false;
    }
    out = x->i;
    return true;
  }
  bool get_bool(const var_t &v, bool &out) {
    const Value *x = f.st.get(v);
    if (!x || x->k != Value::BOOL) {
      m.outside("read of non-boolean " + v.name().str());
      return false;
    }
    out = x->b;
    return true;
  }
  void set_int(const var_t &v, const mpz_class &val) {
    if (m.cfg.bv) {
      auto ty = v.get_type();
      f.st.set(v, Value::mk_int(ty.is_integer() ? bv_wrap(val, ty.get_integer_bitwidth()) : val));
      return;
    }
    if (too_big(val)) {
      m.outside("magnitude");
      return;
    }
    f.st.set(v, Value::mk_int(val));
  }
  bool eval(const lin_exp_t &e, mpz_class &out) {
    if (!m.eval_lin_exp(f, e, out)) {
      m.outside("cannot evaluate expression");
      return false;
    }
    if (too_big(out)) {
      m.outside("magnitude");
      return false;
    }
    return true;
  }
  int cond(const lin_cst_t &c) {
    int r = m.eval_lin_cst(f, c);
    if (r < 0)
      m.outside(m.cfg.bv ? "constraint could wrap around or cannot be evaluated" : "cannot evaluate constraint");
    return r;
  }

  void visit(bin_op_t &s) override {
    mpz_class a, b;
    if (!get_int(*s.left().get_variable(), a))
      return;
    if (s.right().get_variable()) {
      if (!get_int(*s.right().get_variable(), b))
        return;
    } else
      b = to_mpz(s.right().constant());
    mpz_class r;
    using namespace crab::cfg;
    if (m.cfg.bv) {
      visit_bv(s, a, b);
      return;
    }
    switch (s.op()) {
    case BINOP_ADD:
      r = a + b;
      break;
    case BINOP_SUB:
      r = a - b;
      break;
    case BINOP_MUL:
      r = a * b;
      break;
    case BINOP_SDIV:
      if (b == 0) {
        m.block_here();
        return;
      }
      mpz_tdiv_q(r.get_mpz_t(), a.get_mpz_t(), b.get_mpz_t());
      break;
    case BINOP_SREM:
      if (b == 0) {
        m.block_here();
        return;
      }
      mpz_tdiv_r(r.get_mpz_t(), a.get_mpz_t(), b.get_mpz_t());
      break;
    case BINOP_UDIV:
    case BINOP_UREM:
      if (b == 0) {
        m.block_here();
        return;
      }
      if (a < 0 || b < 0) {
        m.outside("unsigned op on negative operand");
        return;
      }
      if (s.op() == BINOP_UDIV)
        mpz_tdiv_q(r.get_mpz_t(), a.get_mpz_t(), b.get_mpz_t());
      else
        mpz_tdiv_r(r.get_mpz_t(), a.get_mpz_t(), b.get_mpz_t());
      break;
    case BINOP_AND:
      r = a & b;
      break;
    case BINOP_OR:
      r = a | b;
      break;
    case BINOP_XOR:
      r = a ^ b;
      break;
    case BINOP_SHL:
    case BINOP_LSHR:
    case BINOP_ASHR: {
      if (b < 0 || b > 64) {
        m.outside("shift amount");
        return;
      }
      unsigned long k = b.get_ui();
      if (s.op() == BINOP_SHL)
        mpz_mul_2exp(r.get_mpz_t(), a.get_mpz_t(), k);
      else if (s.op() == BINOP_ASHR)
        mpz_fdiv_q_2exp(r.get_mpz_t(), a.get_mpz_t(), k);
      else {
        if (a < 0) {
          m.outside("lshr of negative");
          return;
        }
        mpz_fdiv_q_2exp(r.get_mpz_t(), a.get_mpz_t(), k);
      }
      break;
    }
    }
    set_int(s.lhs(), r);
  }

  // two's-complement semantics at the width of the left-hand side. Operands are
  // signed representatives; a constant operand is reduced modulo 2^w first
  // (crab's wrapint does the same when the constant fits [-2^(w-1), 2^w-1];
  // a constant outside that range is outside the model)
  void visit_bv(bin_op_t &s, mpz_class a, mpz_class b) {
    using namespace crab::cfg;
    auto ty = s.lhs().get_type();
    unsigned w = ty.is_integer() ? ty.get_integer_bitwidth() : 0;
    if (w == 0) {
      m.outside("bv: non-integer lhs");
      return;
    }
    mpz_class lo, hi;
    mpz_ui_pow_ui(hi.get_mpz_t(), 2, w);
    mpz_ui_pow_ui(lo.get_mpz_t(), 2, w - 1);
    if (!s.right().get_variable()) {
      if (b < -lo || b >= hi) {
        m.outside("bv: constant does not fit the width");
        return;
      }
      b = bv_wrap(b, w);
    }
    a = bv_wrap(a, w);
    mpz_class r;
    switch (s.op()) {
    case BINOP_ADD:
      r = a + b;
      break;
    case BINOP_SUB:
      r = a - b;
      break;
    case BINOP_MUL:
      r = a * b;
      break;
    case BINOP_SDIV:
    case BINOP_SREM:
      if (b == 0) {
        m.block_here();
        return;
      }
      if (a == -lo && b == -1) {
        m.outside("bv: signed division overflow");
        return;
      }
      if (s.op() == BINOP_SDIV)
        mpz_tdiv_q(r.get_mpz_t(), a.get_mpz_t(), b.get_mpz_t());
      else
        mpz_tdiv_r(r.get_mpz_t(), a.get_mpz_t(), b.get_mpz_t());
      break;
    case BINOP_UDIV:
    case BINOP_UREM: {
      if (b == 0) {
        m.block_here();
        return;
      }
      mpz_class ua = bv_unsigned(a, w), ub = bv_unsigned(b, w);
      if (s.op() == BINOP_UDIV)
        mpz_tdiv_q(r.get_mpz_t(), ua.get_mpz_t(), ub.get_mpz_t());
      else
        mpz_tdiv_r(r.get_mpz_t(), ua.get_mpz_t(), ub.get_mpz_t());
      break;
    }
    case BINOP_AND:
      r = a & b;
      break;
    case BINOP_OR:
      r = a | b;
      break;
    case BINOP_XOR:
      r = a ^ b;
      break;
    case BINOP_SHL:
    case BINOP_LSHR:
    case BINOP_ASHR: {
      // shift amounts >= width are undefined on real machines
      if (b < 0 || b >= w) {
        m.outside("bv: shift amount");
        return;
      }
      unsigned long k = b.get_ui();
      if (s.op() == BINOP_SHL)
        mpz_mul_2exp(r.get_mpz_t(), a.get_mpz_t(), k);
      else if (s.op() == BINOP_ASHR)
        mpz_fdiv_q_2exp(r.get_mpz_t(), a.get_mpz_t(), k);
      else {
        mpz_class ua = bv_unsigned(a, w);
        mpz_fdiv_q_2exp(r.get_mpz_t(), ua.get_mpz_t(), k);
      }
      break;
    }
    }
    set_int(s.lhs(), r);
  }

  void visit(assign_t &s) override {
    mpz_class r;
    if (eval(s.rhs(), r))
      set_int(s.lhs(), r);
  }

  void visit(assume_t &s) override {
    int c = cond(s.constraint());
    if (c < 0)
      return;
    m.log(Event::COND, label, idx, c);
    if (!c)
      m.block_here();
  }

  void visit(assert_t &s) override {
    int c = cond(s.constraint());
    if (c < 0)
      return;
    int64_t id = s.get_debug_info().get_id();
    m.log(Event::ASSERT, label, id, c);
    if (m.mon && !m.mon->on_assert(m, f, label, s, id, c)) {
      m.end = EndReason::ABORT;
      m.stop = true;
      return;
    }
    if (!c) {
      m.end = EndReason::FAILED_ASSERT;
      m.stop = true;
    }
  }

  void visit(select_t &s) override {
    int c = cond(s.cond());
    if (c < 0)
      return;
    m.log(Event::SELECT, label, idx, c);
    mpz_class r;
    if (eval(c ? s.left() : s.right(), r))
      set_int(s.lhs(), r);
  }

  void visit(int_cast_t &s) override {
    using namespace crab::cfg;
    auto sty = s.src().get_type(), dty = s.dst().get_type();
    if (sty.is_bool() && dty.is_integer()) {
      bool b;
      if (!get_bool(s.src(), b))
        return;
      if (s.op() == CAST_ZEXT)
        set_int(s.dst(), b ? 1 : 0);
      else
        m.outside("sext of bool");
      return;
    }
    if (sty.is_integer() && dty.is_bool()) {
      mpz_class a;
      if (!get_int(s.src(), a))
        return;
      if (a == 0 || a == 1)
        f.st.set(s.dst(), Value::mk_bool(a == 1));
      else
        m.outside("trunc to bool of value not in {0,1}");
      return;
    }
    mpz_class a;
    if (!get_int(s.src(), a))
      return;
    if (m.cfg.bv) {
      // trunc: low bits; sext: same signed value; zext: the unsigned value of the source
      if (s.op() == CAST_ZEXT)
        set_int(s.dst(), bv_unsigned(a, s.src_width()));
      else
        set_int(s.dst(), a);
      return;
    }
    unsigned w = std::min(s.src_width(), s.dst_width());
    mpz_class lim;
    mpz_ui_pow_ui(lim.get_mpz_t(), 2, w >= 1 ? w - 1 : 0);
    if (a < 0 || a >= lim) {
      m.outside("cast of value outside the common non-negative range");
      return;
    }
    set_int(s.dst(), a);
  }

  void visit(havoc_t &s) override {
    const var_t &v = s.get_variable();
    auto ty = v.get_type();
    crab::crab_string_os os;
    s.write(os);
    std::string tag = os.str(); // "havoc(x) /* hN*/" : survives clone()
    if (ty.is_integer()) {
      mpz_class r = m.sched.draw_int(m, m.next_key(tag), (int)ty.get_integer_bitwidth());
      m.log(Event::HAVOC, label, idx, false, r.get_str());
      set_int(v, r);
    } else if (ty.is_bool()) {
      bool r = m.sched.draw_bool(m, m.next_key(tag));
      m.log(Event::HAVOC, label, idx, false, r ? "1" : "0");
      f.st.set(v, Value::mk_bool(r));
    } else {
      // havoc of array/region/reference: the variable becomes undefined;
      // any later read ends the run outside the model
      f.st.m.erase(v.index());
    }
  }

  void visit(unreach_t &) override { m.block_here(); }

  void visit(bool_bin_op_t &s) override {
    bool a, b;
    if (!get_bool(s.left(), a) || !get_bool(s.right(), b))
      return;
    using namespace crab::cfg;
    bool r = s.op() == BINOP_BAND ? (a && b) : s.op() == BINOP_BOR ? (a || b) : (a != b);
    f.st.set(s.lhs(), Value::mk_bool(r));
  }

  void visit(bool_assign_cst_t &s) override {
    int c;
    if (s.is_rhs_linear_constraint())
      c = cond(s.rhs_as_linear_constraint());
    else {
      c = m.eval_ref_cst(f, s.rhs_as_reference_constraint());
      if (c < 0)
        m.outside("cannot evaluate reference constraint");
    }
    if (c < 0)
      return;
    f.st.set(s.lhs(), Value::mk_bool(c));
  }

  void visit(bool_assign_var_t &s) override {
    bool a;
    if (!get_bool(s.rhs(), a))
      return;
    f.st.set(s.lhs(), Value::mk_bool(s.is_rhs_negated() ? !a : a));
  }

  void visit(bool_assume_t &s) override {
    bool a;
    if (!get_bool(s.cond(), a))
      return;
    bool c = s.is_negated() ? !a : a;
    m.log(Event::COND, label, idx, c);
    if (!c)
      m.block_here();
  }

  void visit(bool_select_t &s) override {
    bool c, a, b;
    if (!get_bool(s.cond(), c) || !get_bool(s.left(), a) || !get_bool(s.right(), b))
      return;
    m.log(Event::SELECT, label, idx, c);
    f.st.set(s.lhs(), Value::mk_bool(c ? a : b));
  }

  void visit(bool_assert_t &s) override {
    bool a;
    if (!get_bool(s.cond(), a))
      return;
    int64_t id = s.get_debug_info().get_id();
    m.log(Event::ASSERT, label, id, a);
    if (m.mon && !m.mon->on_assert(m, f, label, s, id, a)) {
      m.end = EndReason::ABORT;
      m.stop = true;
      return;
    }
    if (!a) {
      m.end = EndReason::FAILED_ASSERT;
      m.stop = true;
    }
  }

  // ---------------- arrays
  std::shared_ptr<ArrData> arr_of(const var_t &a, bool must_be_inited) {
    const Value *x = f.st.get(a);
    if (!x || x->k != Value::ARR || !x->arr || (must_be_inited && !x->arr->inited)) {
      m.outside("array " + a.name().str() + " not initialised");
      return nullptr;
    }
    return x->arr;
  }
  bool elem_size(const lin_exp_t &e, long &out) {
    mpz_class v;
    if (!eval(e, v))
      return false;
    if (v <= 0 || v > 64) {
      m.outside("element size");
      return false;
    }
    out = v.get_si();
    return true;
  }
  bool scalar_of(const lin_exp_t &e, bool is_bool_arr, mpz_class &out) {
    // value operand: number or variable (int or bool)
    (void)is_bool_arr;
    return eval(e, out);
  }
  void visit(arr_init_t &s) override {
    long esz;
    mpz_class lb, ub, val;
    if (!elem_size(s.elem_size(), esz) || !eval(s.lb_index(), lb) || !eval(s.ub_index(), ub) ||
        !scalar_of(s.val(), s.array_type().is_bool_array(), val))
      return;
    if (lb < 0 || ub < lb || ub - lb > 4096 || (lb % esz) != 0) {
      m.outside("array_init range");
      return;
    }
    auto d = std::make_shared<ArrData>();
    d->inited = true;
    d->lb = lb;
    d->ub = ub;
    d->esz = esz;
    for (mpz_class i = lb; i <= ub; i += esz)
      d->cells[i] = val;
    Value v;
    v.k = Value::ARR;
    v.arr = d;
    f.st.set(s.array(), v);
  }
  // a single-cell store may create a cell up to 64 elements beyond the range that
  // array_init initialised (crab arrays are unbounded maps; only reads of
  // never-written cells are outside the model)
  bool check_store_idx(const ArrData &d, const mpz_class &i, long esz) {
    if (esz != d.esz) {
      m.outside("non-uniform element size");
      return false;
    }
    if (i < d.lb || i > d.ub + 64 * esz || ((i - d.lb) % esz) != 0) {
      m.outside("array store index below the initialised range, far beyond it or unaligned");
      return false;
    }
    return true;
  }
  bool check_idx(const ArrData &d, const mpz_class &i, long esz) {
    if (esz != d.esz) {
      m.outside("non-uniform element size");
      return false;
    }
    if (d.cells.find(i) != d.cells.end() && i > d.ub && ((i - d.lb) % esz) == 0)
      return true; // a cell created by a store beyond the initialised range
    if (i < d.lb || i > d.ub || ((i - d.lb) % esz) != 0 || d.cells.find(i) == d.cells.end()) {
      m.outside("array index out of the initialised range or unaligned");
      return false;
    }
    return true;
  }
  void visit(arr_store_t &s) override {
    auto d = arr_of(s.array(), true);
    if (!d)
      return;
    long esz;
    mpz_class lb, ub, val;
    if (!elem_size(s.elem_size(), esz) || !eval(s.lb_index(), lb) || !eval(s.ub_index(), ub) ||
        !scalar_of(s.value(), s.array_type().is_bool_array(), val))
      return;
    auto nd = std::make_shared<ArrData>(*d);
    if (s.lb_index().equal(s.ub_index())) {
      if (!check_store_idx(*nd, lb, esz))
        return;
      nd->cells[lb] = val;
      if (s.is_strong_update() && nd->cells.size() != 1) {
        m.outside("is_strong_update on a multi-cell array");
        return;
      }
    } else {
      if (ub < lb) {
        m.outside("empty store range");
        return;
      }
      if (!check_idx(*nd, lb, esz))
        return;
      // every aligned cell in [lb,ub]
      for (mpz_class i = lb; i <= ub; i += esz) {
        if (!check_idx(*nd, i, esz))
          return;
        nd->cells[i] = val;
      }
    }
    Value v;
    v.k = Value::ARR;
    v.arr = nd;
    f.st.set(s.array(), v);
  }
  void visit(arr_load_t &s) override {
    auto d = arr_of(s.array(), true);
    if (!d)
      return;
    long esz;
    mpz_class i;
    if (!elem_size(s.elem_size(), esz) || !eval(s.index(), i))
      return;
    if (!check_idx(*d, i, esz))
      return;
    const mpz_class &val = d->cells[i];
    if (s.lhs().get_type().is_bool())
      f.st.set(s.lhs(), Value::mk_bool(val != 0));
    else
      set_int(s.lhs(), val);
  }
  void visit(arr_assign_t &s) override {
    const Value *x = f.st.get(s.rhs());
    if (!x || x->k != Value::ARR) {
      m.outside("array_assign from undefined array");
      return;
    }
    f.st.set(s.lhs(), *x);
  }

  // ---------------- regions and references
  std::shared_ptr<RgnData> rgn_of(const var_t &r) {
    const Value *x = f.st.get(r);
    if (!x || x->k != Value::RGN || !x->rgn) {
      m.outside("region " + r.name().str() + " not initialised");
      return nullptr;
    }
    return x->rgn;
  }
  bool ref_of(const var_t &r, Value &out) {
    const Value *x = f.st.get(r);
    if (!x || x->k != Value::REF) {
      m.outside("reference " + r.name().str() + " undefined");
      return false;
    }
    out = *x;
    return true;
  }
  void visit(region_init_t &s) override {
    Value v;
    v.k = Value::RGN;
    v.rgn = std::make_shared<RgnData>();
    f.st.set(s.region(), v);
  }
  void visit(region_copy_t &s) override {
    auto d = rgn_of(s.rhs_region());
    if (!d)
      return;
    Value v;
    v.k = Value::RGN;
    v.rgn = std::make_shared<RgnData>(*d);
    f.st.set(s.lhs_region(), v);
  }
  void visit(region_cast_t &) override { m.outside("region_cast"); }
  void visit(make_ref_t &s) override {
    if (!rgn_of(s.region()))
      return;
    mpz_class size;
    if (s.size().is_variable()) {
      if (!get_int(s.size().get_variable(), size))
        return;
    } else
      size = to_mpz(s.size().get_constant());
    if (size <= 0 || size > 4096) {
      m.outside("allocation size");
      return;
    }
    if (m.cfg.remake_outside) {
      // neutraliser of KF47: executions that re-allocate a reference variable
      // that still holds an object are not judged
      const Value *old = f.st.get(s.lhs());
      if (old && old->k == Value::REF && old->obj != 0) {
        m.outside("make_ref redefines a reference that holds an object (KF47 neutraliser)");
        return;
      }
      // ... or that was allocated before and whose earlier object is still alive
      // (it may be reachable through an alias although the variable itself was
      // overwritten in between, e.g. by a gep from null)
      auto pm = m.made_by.find(s.lhs().index());
      if (pm != m.made_by.end() && !m.heap[pm->second].freed) {
        m.outside("make_ref redefines a reference that holds an object (KF47 neutraliser)");
        return;
      }
    }
    HeapObj o;
    o.base = mpz_class(4096) * (long)m.heap.size();
    o.size = size;
    o.site = (int)s.alloc_site().index();
    m.heap.push_back(o);
    m.made_by[s.lhs().index()] = (int)m.heap.size() - 1;
    Value r;
    r.k = Value::REF;
    r.obj = (int)m.heap.size() - 1;
    r.i = o.base;
    f.st.set(s.lhs(), r);
  }
  void visit(remove_ref_t &s) override {
    Value r;
    if (!ref_of(s.ref(), r))
      return;
    if (r.obj == 0) {
      m.outside("free of null");
      return;
    }
    if (m.heap[r.obj].freed) {
      m.outside("double free");
      return;
    }
    m.heap[r.obj].freed = true;
  }
  bool deref_ok(const Value &r) {
    if (r.obj == 0) {
      m.outside("dereference of null");
      return false;
    }
    const HeapObj &o = m.heap[r.obj];
    if (o.freed) {
      m.outside("dereference of freed reference");
      return false;
    }
    if (r.i < o.base || r.i >= o.base + o.size) {
      m.outside("dereference out of object bounds");
      return false;
    }
    return true;
  }
  void visit(load_from_ref_t &s) override {
    auto d = rgn_of(s.region());
    Value r;
    if (!d || !ref_of(s.ref(), r) || !deref_ok(r))
      return;
    auto it = d->cells.find(r.i);
    if (it == d->cells.end()) {
      m.outside("read of a never-written cell");
      return;
    }
    auto lty = s.lhs().get_type();
    if (lty.is_bool())
      f.st.set(s.lhs(), Value::mk_bool(it->second.i != 0));
    else if (lty.is_integer())
      set_int(s.lhs(), it->second.i);
    else if (lty.is_reference()) {
      Value v;
      v.k = Value::REF;
      v.i = it->second.i;
      v.obj = it->second.obj;
      f.st.set(s.lhs(), v);
    } else {
      m.outside("load of unsupported type");
      return;
    }
    if (it->second.tags && !m.stop) {
      // the loaded value carries the tags of the cell
      Value lv = *f.st.get(s.lhs());
      lv.tags = it->second.tags;
      f.st.set(s.lhs(), lv);
    }
  }
  void visit(store_to_ref_t &s) override {
    auto d = rgn_of(s.region());
    Value r;
    if (!d || !ref_of(s.ref(), r) || !deref_ok(r))
      return;
    RgnData::Cell c;
    if (s.val().is_variable()) {
      const Value *x = f.st.get(s.val().get_variable());
      if (!x) {
        m.outside("store of undefined value");
        return;
      }
      if (x->k == Value::INT)
        c.i = x->i;
      else if (x->k == Value::BOOL)
        c.i = x->b ? 1 : 0;
      else if (x->k == Value::REF) {
        c.i = x->i;
        c.obj = x->obj;
      } else {
        m.outside("store of unsupported value");
        return;
      }
      c.tags = x->tags;
    } else if (s.val().is_bool_true())
      c.i = 1;
    else if (s.val().is_bool_false())
      c.i = 0;
    else if (s.val().is_reference_null())
      c.i = 0;
    else
      c.i = to_mpz(s.val().get_constant());
    auto nd = std::make_shared<RgnData>(*d);
    nd->cells[r.i] = c;
    Value v;
    v.k = Value::RGN;
    v.rgn = nd;
    f.st.set(s.region(), v);
  }
  void visit(gep_ref_t &s) override {
    Value r;
    mpz_class off;
    if (!ref_of(s.rhs(), r) || !eval(s.offset(), off))
      return;
    if (r.obj == 0) {
      if (off != 0) {
        m.outside("gep on null with offset");
        return;
      }
    } else {
      r.i += off;
      const HeapObj &o = m.heap[r.obj];
      if (r.i < o.base || r.i > o.base + o.size) {
        m.outside("gep out of object bounds");
        return;
      }
    }
    f.st.set(s.lhs(), r);
  }
  void visit(assume_ref_t &s) override {
    int c = m.eval_ref_cst(f, s.constraint());
    if (c < 0) {
      m.outside("cannot evaluate reference constraint");
      return;
    }
    m.log(Event::COND, label, idx, c);
    if (!c)
      m.block_here();
  }
  void visit(assert_ref_t &s) override {
    int c = m.eval_ref_cst(f, s.constraint());
    if (c < 0) {
      m.outside("cannot evaluate reference constraint");
      return;
    }
    int64_t id = s.get_debug_info().get_id();
    m.log(Event::ASSERT, label, id, c);
    if (m.mon && !m.mon->on_assert(m, f, label, s, id, c)) {
      m.end = EndReason::ABORT;
      m.stop = true;
      return;
    }
    if (!c) {
      m.end = EndReason::FAILED_ASSERT;
      m.stop = true;
    }
  }
  void visit(select_ref_t &s) override {
    bool c;
    if (!get_bool(s.cond(), c))
      return;
    m.log(Event::SELECT, label, idx, c);
    const auto &op = c ? s.left_ref() : s.right_ref();
    Value r;
    if (op.is_variable()) {
      if (!ref_of(op.get_variable(), r))
        return;
    } else
      r.k = Value::REF; // null
    f.st.set(s.lhs_ref(), r);
  }
  void visit(int_to_ref_t &) override { m.outside("int_to_ref"); }
  void visit(ref_to_int_t &) override { m.outside("ref_to_int"); }
  void visit(intrinsic_t &s) override {
    // the two partitioning directives of the value-partitioning domains have no
    // concrete effect; every other intrinsic is outside the reference semantics
    const std::string &n = s.get_intrinsic_name();
    if (n == "add_tag" && s.get_args().size() == 3 && s.get_args()[0].is_variable() &&
        s.get_args()[1].is_variable() && s.get_args()[2].is_constant()) {
      // add_tag(rgn, ref, TAG): the data pointed to by ref within rgn gets TAG
      auto d = rgn_of(s.get_args()[0].get_variable());
      Value r;
      if (!d || !ref_of(s.get_args()[1].get_variable(), r) || !deref_ok(r))
        return;
      auto it = d->cells.find(r.i);
      if (it == d->cells.end()) {
        m.outside("add_tag on a never-written cell");
        return;
      }
      auto nd = std::make_shared<RgnData>(*d);
      auto nt = std::make_shared<std::set<int>>();
      if (it->second.tags)
        *nt = *it->second.tags;
      nt->insert((int)to_mpz(s.get_args()[2].get_constant()).get_si());
      nd->cells[r.i].tags = nt;
      Value v;
      v.k = Value::RGN;
      v.rgn = nd;
      f.st.set(s.get_args()[0].get_variable(), v);
      return;
    }
    if (n != "value_partition_start" && n != "value_partition_end")
      m.outside("intrinsic");
  }

  // ---------------- calls
  void havoc_outputs(callsite_t &s) {
    for (auto &v : s.get_lhs()) {
      auto ty = v.get_type();
      std::string tag = "callout:" + s.get_func_name() + ":" + v.name().str();
      if (ty.is_integer()) {
        mpz_class r = m.sched.draw_int(m, m.next_key(tag), (int)ty.get_integer_bitwidth());
        m.log(Event::HAVOC, label, idx, false, r.get_str());
        set_int(v, r);
      } else if (ty.is_bool()) {
        bool r = m.sched.draw_bool(m, m.next_key(tag));
        m.log(Event::HAVOC, label, idx, false, r ? "1" : "0");
        f.st.set(v, Value::mk_bool(r));
      } else
        f.st.m.erase(v.index());
    }
  }
  void visit(callsite_t &s) override {
    CrabFunction *callee = m.cfg.inter ? m.prog.func(s.get_func_name()) : nullptr;
    if (!callee) {
      havoc_outputs(s);
      return;
    }
    if (f.depth + 1 > m.cfg.max_depth) {
      m.end = EndReason::DEPTH_CAP;
      m.stop = true;
      return;
    }
    auto const &decl = callee->cfg->get_func_decl();
    if (decl.get_num_inputs() != s.get_num_args() || decl.get_num_outputs() != s.get_num_lhs()) {
      m.outside("call signature mismatch");
      return;
    }
    Frame cf;
    cf.fn = callee;
    cf.depth = f.depth + 1;
    for (unsigned i = 0; i < s.get_num_args(); i++) {
      const Value *x = f.st.get(s.get_arg_name(i));
      if (!x) {
        m.outside("undefined actual parameter");
        return;
      }
      cf.st.set(decl.get_input_name(i), *x);
    }
    m.init_scalars(cf);
    Store entry_store = cf.st;
    m.log(Event::CALL, s.get_func_name());
    if (m.mon && !m.mon->on_call(m, f, cf, s)) {
      m.end = EndReason::ABORT;
      m.stop = true;
      return;
    }
    m.call_stack.push_back(callee);
    EndReason r = m.run_frame(cf, "");
    if (r != EndReason::EXIT) {
      m.stop = true; // end already set (the stack is kept: monitors may still look at it)
      return;
    }
    m.call_stack.pop_back();
    m.stop = false;
    m.log(Event::RET, s.get_func_name());
    for (unsigned i = 0; i < s.get_num_lhs(); i++) {
      const Value *x = cf.st.get(decl.get_output_name(i));
      if (!x) {
        m.outside("undefined output parameter");
        return;
      }
      f.st.set(s.get_lhs_name(i), *x);
    }
    if (m.mon && !m.mon->on_return(m, f, cf, entry_store, s)) {
      m.end = EndReason::ABORT;
      m.stop = true;
    }
  }
};

} // namespace

EndReason Machine::run_frame(Frame &f, const std::string &start) {
  cfg_t &g = *f.fn->cfg;
  std::string label = start.empty() ? g.entry() : start;
  for (;;) {
    if (++steps > cfg.max_steps) {
      end = EndReason::STEP_CAP;
      stop = true;
      return end;
    }
    if (f.depth == 0)
      final_block = label;
    log(Event::BLOCK, label);
    if (at_block_begin)
      at_block_begin(*this, f, label);
    if (mon && !mon->on_block_entry(*this, f, label)) {
      end = EndReason::ABORT;
      stop = true;
      return end;
    }
    block_t &b = g.get_node(label);
    Exec ex(*this, f, label);
    int idx = 0;
    for (auto &s : b) {
      if (++steps > cfg.max_steps) {
        end = EndReason::STEP_CAP;
        stop = true;
        return end;
      }
      ex.idx = idx;
      if (mon && !mon->on_stmt(*this, f, label, idx, s, true)) {
        end = EndReason::ABORT;
        stop = true;
        return end;
      }
      s.accept(&ex);
      if (stop)
        return end;
      if (mon && !mon->on_stmt(*this, f, label, idx, s, false)) {
        end = EndReason::ABORT;
        stop = true;
        return end;
      }
      idx++;
    }
    if (at_block_end)
      at_block_end(*this, f, label);
    if (mon && !mon->on_block_exit(*this, f, label)) {
      end = EndReason::ABORT;
      stop = true;
      return end;
    }
    if (g.has_exit() && g.exit() == label) {
      end = EndReason::EXIT;
      return end;
    }
    std::vector<std::string> succs;
    for (auto const &n : boost::make_iterator_range(b.next_blocks()))
      succs.push_back(n);
    if (succs.empty()) {
      end = EndReason::NO_EXIT;
      stop = true;
      return end;
    }
    std::vector<bool> en;
    for (auto &s : succs)
      en.push_back(prefix_enabled(f, s));
    int c = sched.choose_succ(*this, f, label, succs, en);
    if (c < 0 || c >= (int)succs.size()) {
      end = EndReason::BLOCKED;
      stop = true;
      return end;
    }
    label = succs[c];
  }
}

EndReason Machine::run(CrabFunction &fn, const Store &init, const std::string &start) {
  Frame f;
  f.fn = &fn;
  f.st = init;
  f.depth = 0;
  stop = false;
  end = EndReason::EXIT;
  call_stack.clear();
  call_stack.push_back(&fn);
  init_scalars(f);
  EndReason r = run_frame(f, start);
  final_store = f.st;
  log(Event::END, end_reason_name(r));
  return r;
}

// ---------------------------------------------------------------------------
// schedulers
// ---------------------------------------------------------------------------
void harvest_constants(const Program &p, std::vector<mpz_class> &pool) {
  std::set<mpz_class> s;
  auto add = [&](const mpz_class &c) {
    s.insert(c);
    s.insert(c + 1);
    s.insert(c - 1);
    s.insert(-c);
  };
  for (auto &f : p.funcs)
    for (auto &b : f.blocks)
      for (auto &st : b.stmts) {
        for (auto &e : st.e) {
          add(e.cst);
          for (auto &t : e.terms)
            add(t.second);
        }
        add(st.c.e.cst);
        add(-st.c.e.cst);
        for (auto &t : st.c.e.terms)
          add(t.second);
        if (st.op == Op::BINOP)
          for (auto &n : st.n)
            add(n);
      }
  pool.assign(s.begin(), s.end());
}

mpz_class RandomScheduler::value_from(uint64_t r) {
  Rng g(r);
  unsigned k = (unsigned)g.below(100);
  if (k < 25) {
    static const int small[] = {0, 1, -1, 2, -2};
    return small[g.below(5)];
  }
  if (k < 55 && !pool.empty())
    return pool[g.below(pool.size())];
  if (k < 85)
    return mpz_class((long)g.range(-12, 12));
  if (k < 93)
    return mpz_class((long)g.range(-300, 300));
  if (large) {
    unsigned bits;
    if (huge && g.chance(1, 3))
      bits = 70;
    else if (g.coin())
      bits = 31;
    else
      bits = 62;
    mpz_class v;
    mpz_ui_pow_ui(v.get_mpz_t(), 2, bits);
    v += (long)g.range(-2, 2);
    if (g.coin())
      v = -v;
    return v;
  }
  return mpz_class((long)g.range(-100000, 100000));
}

mpz_class RandomScheduler::draw_int(Machine &, const std::string &key, int width) {
  uint64_t h = hash_str(key, key_seed);
  if (bv && width > 0) {
    // BV profile: one draw in three lands near a pole of the width (signed
    // min/max, unsigned max = -1, the middle of the unsigned range)
    Rng g(mix64(h ^ 0xb5b5));
    if (g.chance(1, 3)) {
      mpz_class half;
      mpz_ui_pow_ui(half.get_mpz_t(), 2, (unsigned)width - 1);
      long d = (long)g.range(0, 3);
      switch (g.below(4)) {
      case 0:
        return half - 1 - d; // signed max and below
      case 1:
        return -half + d; // signed min and above
      case 2:
        return mpz_class(-1 - d); // unsigned max and below
      default:
        return (half / 2) * (g.coin() ? 1 : -1) + d;
      }
    }
    return bv_wrap(value_from(h), (unsigned)width);
  }
  return value_from(h);
}

bool RandomScheduler::draw_bool(Machine &, const std::string &key) {
  return hash_str(key, key_seed) & 1;
}

int RandomScheduler::choose_succ(Machine &, const Frame &f, const std::string &block,
                                 const std::vector<std::string> &succs,
                                 const std::vector<bool> &enabled) {
  std::vector<int> cand;
  if (policy != UNIFORM)
    for (size_t i = 0; i < succs.size(); i++)
      if (enabled[i])
        cand.push_back((int)i);
  if (policy != UNIFORM && cand.empty())
    return -1;
  if (policy == UNIFORM)
    for (size_t i = 0; i < succs.size(); i++)
      cand.push_back((int)i);
  if (policy == LOOP_BUDGET && cand.size() > 1) {
    // prefer successors visited less often once the budget of this block is used
    int &v = visits[f.fn->src ? f.fn->src->name + ":" + block : block];
    v++;
    if (v > loop_budget) {
      int best = cand[0];
      int bestv = 1 << 30;
      for (int c : cand) {
        int vc = visits[(f.fn->src ? f.fn->src->name + ":" : std::string()) + succs[c]];
        if (vc < bestv) {
          bestv = vc;
          best = c;
        }
      }
      return best;
    }
  }
  return cand[rng.below(cand.size())];
}

int TraceScheduler::choose_succ(Machine &m, const Frame &f, const std::string &block,
                                const std::vector<std::string> &succs,
                                const std::vector<bool> &enabled) {
  if (f.depth != 0)
    return RandomScheduler::choose_succ(m, f, block, succs, enabled);
  // path[pos] is the label of the block just executed
  if (pos >= path.size() || path[pos] != block || pos + 1 >= path.size()) {
    diverged = true;
    return -1;
  }
  pos++;
  for (size_t i = 0; i < succs.size(); i++)
    if (succs[i] == path[pos])
      return (int)i;
  diverged = true;
  return -1;
}

} // namespace sim
