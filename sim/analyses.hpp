// Thin, non-template facades over the REAL crab analysers, all instantiated
// once with crab's type-erased domain wrapper (dom_t). The facades exist
// only so that the property drivers need not re-instantiate the analyser
// templates; they add no behaviour.
#pragma once
#include "absval.hpp"
#include "build.hpp"
#include <crab/domains/generic_abstract_domain.hpp>

namespace sim {

enum class Verdict { SAFE, ERR, WARN, UNREACH };
inline const char *verdict_name(Verdict v) {
  switch (v) {
  case Verdict::SAFE:
    return "safe";
  case Verdict::ERR:
    return "error";
  case Verdict::WARN:
    return "warning";
  case Verdict::UNREACH:
    return "unreachable";
  }
  return "?";
}
struct CheckResult {
  std::map<int64_t, std::vector<Verdict>> by_id;
  unsigned safe = 0, warn = 0, err = 0, unreach = 0;
};

struct FixpoCfg {
  unsigned delay = 1, descending = 1, thresholds = 0;
  std::string str() const {
    return "delay=" + std::to_string(delay) + ",desc=" + std::to_string(descending) +
           ",thr=" + std::to_string(thresholds);
  }
};

using AssumptionMap = std::map<std::string, std::shared_ptr<dom_t>>;

// intra_fwd_analyzer<cfg_ref_t, dom_t> (+ intra_checker + assert_property_checker)
class IntraFwd {
public:
  virtual ~IntraFwd() {}
  static std::unique_ptr<IntraFwd> create(CrabFunction &fn, const dom_t &top, FixpoCfg fp,
                                          bool liveness);
  virtual void run(const std::string &entry, const dom_t &init, const AssumptionMap &assume) = 0;
  virtual AbsVal::P pre(const std::string &label) = 0;
  virtual AbsVal::P post(const std::string &label) = 0;
  virtual CheckResult check() = 0;
  // abstract state right before statement idx of block label, obtained like the
  // checker does: re-propagating the block-entry invariant with the real transformer
  virtual AbsVal::P before_stmt(const std::string &label, int idx) = 0;
  virtual std::string wto_str() = 0;
  virtual unsigned max_cycle_visits() = 0;
};

// intra_forward_backward_analyzer<cfg_ref_t, dom_t>
class FwdBwd {
public:
  virtual ~FwdBwd() {}
  static std::unique_ptr<FwdBwd> create(CrabFunction &fn, const dom_t &top);
  virtual void run(const std::string &entry, const dom_t &init, const AssumptionMap &assume,
                   bool liveness, FixpoCfg fp, bool backward, unsigned max_refine,
                   bool use_refined) = 0;
  virtual AbsVal::P pre(const std::string &label) = 0;
  virtual AbsVal::P post(const std::string &label) = 0;
  virtual CheckResult check() = 0;
};

// necessary_preconditions_fixpoint_iterator<cfg_ref_t, dom_t>
class Backward {
public:
  virtual ~Backward() {}
  static std::unique_ptr<Backward> create(CrabFunction &fn, const dom_t &top, bool good_states,
                                          FixpoCfg fp);
  virtual void run(const dom_t &postcond, const AssumptionMap *fwd_invariants) = 0;
  virtual AbsVal::P pre(const std::string &label) = 0;
};

} // namespace sim
