// C14: array domains never lose a value that a cell can hold. Seeded CrabIR
// executions over programs with arrays (ARRAY profile) against the real
// intra_fwd_analyzer running array_smashing<B> / array_adaptive_domain<B>:
//  - at every array_load the concrete value read from the cell must lie in
//    the abstract value of the left-hand side right after the load (the state
//    obtained, like crab's checker does, by re-propagating the block-entry
//    invariant with the real transformer);
//  - the scalar part of every reached state must lie in the block invariants
//    (so an array operation never turns a reached state into bottom);
//  - verdicts on assertions over loaded values must not be contradicted.
#include "prop_common.hpp"

namespace sim {
namespace {

struct ArrayMonitor : Monitor {
  IntraFwd &an;
  CrabFunction &fn;
  const Case &cs;
  Stats &st;
  Outcome &out;
  VerdictMonitor verdicts;
  GammaOpts full, cheap;
  std::map<std::string, AbsVal::P> pre, post;
  std::map<const AbsVal *, GammaCache> caches; // the invariants are never mutated here
  std::map<std::pair<std::string, int>, AbsVal::P> after_load;
  std::map<std::string, int> seen;
  long checks = 0, load_checks = 0;
  bool region = false; // C15: loads through references instead of array loads

  ArrayMonitor(IntraFwd &a, CrabFunction &f, const Case &c, Stats &s, Outcome &o,
               const CheckResult &cr)
      : an(a), fn(f), cs(c), st(s), out(o), verdicts(cr, c, o) {
    cheap.use_index = false;
    cheap.probes = false;
    cheap.point_meet = false;
    cheap.export_disj = false;
  }
  bool fail(const std::string &monitor, const GammaResult &g, const std::string &where,
            const AbsVal &inv) {
    out.violated = true;
    out.v.property = cs.property;
    out.v.monitor = monitor;
    out.v.item = g.item;
    out.v.where = where;
    out.v.detail = g.detail + " ; abstract state=" + inv.str();
    return false;
  }
  bool check_block(Machine &m, Frame &f, const std::string &label, bool is_pre) {
    if (f.depth != 0)
      return true;
    auto &tbl = is_pre ? pre : post;
    auto it = tbl.find(label);
    if (it == tbl.end())
      it = tbl.insert({label, is_pre ? an.pre(label) : an.post(label)}).first;
    int &n = seen[label + (is_pre ? "<" : ">")];
    // exporting the constraints of an array/region domain is expensive: hot
    // program points are sampled after their first visits
    if (n >= 24 && (n % 16) != 0) {
      n++;
      return true;
    }
    Sigma sg = sigma_of(f.st, fn.vars, &m.heap);
    GammaResult g = in_gamma(*it->second, sg, n < 4 ? full : cheap, &caches[it->second.get()]);
    n++;
    checks++;
    if (!g.ok)
      return fail(is_pre ? "pre_invariant" : "post_invariant", g, fn.src->name + ":" + label,
                  *it->second);
    return true;
  }
  bool on_block_entry(Machine &m, Frame &f, const std::string &label) override {
    return check_block(m, f, label, true);
  }
  bool on_block_exit(Machine &m, Frame &f, const std::string &label) override {
    return check_block(m, f, label, false);
  }
  bool on_stmt(Machine &m, Frame &f, const std::string &label, int idx, stmt_t &s,
               bool before) override {
    if (before || f.depth != 0 || !(region ? s.is_ref_load() : s.is_arr_read()))
      return true;
    if (m.stop) // the load itself was outside the model
      return true;
    auto key = std::make_pair(label, idx);
    auto it = after_load.find(key);
    if (it == after_load.end())
      it = after_load.insert({key, an.before_stmt(label, idx + 1)}).first;
    int &n = seen[label + "#" + std::to_string(idx)];
    if (n >= 48 && (n % 8) != 0) {
      n++;
      return true;
    }
    Sigma sg = sigma_of(f.st, fn.vars, &m.heap);
    GammaResult g = in_gamma(*it->second, sg, n < 4 ? full : cheap, &caches[it->second.get()]);
    n++;
    load_checks++;
    if (!g.ok)
      return fail("loaded_value_lost", g,
                  fn.src->name + ":" + label + ":stmt" + std::to_string(idx), *it->second);
    return true;
  }
  bool on_assert(Machine &m, Frame &f, const std::string &label, stmt_t &s, int64_t id,
                 bool holds) override {
    return verdicts.on_assert(m, f, label, s, id, holds);
  }
};

Case gen_mem(const std::string &prop, GenConfig::Profile prof, Rng &r, const Tier &t,
             const std::vector<std::string> &doms) {
  Case c;
  c.property = prop;
  c.domain = doms[r.below(doms.size())];
  const DomainInfo *di = find_domain(c.domain);
  GenConfig gc = random_gen_config(r, prof, false);
  restrict_for_domain(gc, *di);
  if (prof == GenConfig::ARRAY && !(di->caps & CAP_BOOL) && r.chance(2, 3))
    gc.nbools = 0;
  gc.max_stmts = std::max(gc.max_stmts, 2);
  gc.n_asserts = std::max(gc.n_asserts, 1);
  gc.no_exit = false;
  c.prog = generate_program(r, gc);
  c.params.set("gen", gc.to_json());
  random_fixpo(r, c.params);
  c.params.set("liveness", r.chance(1, 3) ? 1 : 0);
  c.params.set("policy", (long)r.below(3));
  c.params.set("large", gc.large ? 1 : 0);
  c.params.set("huge", gc.huge ? 1 : 0);
  if ((di->caps & CAP_NTOW) && r.chance(1, 5))
    c.params.set("ntow_per_mille", (long)(r.coin() ? 20 : 200));
  random_knobs(r, c.domain, c.params);
  c.exec_seed = r.next() & 0x3fffffffffffffffULL;
  c.n_execs = t.execs;
  return c;
}

Outcome check_mem(const Case &c, Stats &st, bool region) {
  Outcome out;
  apply_knobs(c);
  const DomainInfo *di = find_domain(c.domain);
  if (!di) {
    out.refusal = "unknown domain " + c.domain;
    return out;
  }
  std::unique_ptr<CrabProgram> cp;
  std::unique_ptr<dom_t> top;
  std::unique_ptr<IntraFwd> an;
  CheckResult cr;
  FixpoCfg fp = fixpo_of(c);
  GuardResult gr = guarded(tick_budget_for(c.prog), [&]() {
    cp = build_program(c.prog);
    top.reset(di->make_dom());
    CrabFunction &fn = cp->funcs[0];
    AssumptionMap none;
    an = IntraFwd::create(fn, *top, fp, c.pbool("liveness"));
    an->run(fn.cfg->entry(), top->make_top(), none);
    cr = an->check();
  });
  st.inc("analysis_ticks", gr.ticks);
  if (!gr.ok) {
    if (gr.budget) {
      out.budget = true;
      st.inc("analysis_budget_exceeded");
    } else {
      out.refusal = gr.msg;
      st.inc("refused");
    }
    return out;
  }
  st.inc("analyses");
  st.inc("verdict_safe", cr.safe);
  st.inc("verdict_warning", cr.warn);
  st.inc("verdict_unreachable", cr.unreach);
  CrabFunction &fn = cp->funcs[0];
  uint64_t h = hash_str(an->wto_str());
  std::vector<mpz_class> pool;
  harvest_constants(c.prog, pool);
  GuardResult mg = guarded(-1, [&]() {
    ArrayMonitor mon(*an, fn, c, st, out, cr);
    mon.region = region;
    for (int e = 0; e < c.n_execs && !out.violated; e++) {
      RandomScheduler sched(mix64(c.exec_seed + (uint64_t)e));
      configure_scheduler(sched, c, *di, pool);
      MachineConfig mc = machine_config_for(c, *di);
      Machine m(*cp, sched, &mon, mc);
      EndReason er = m.run(fn, Store());
      account_run(st, m, er);
      h = hash_combine(h, m.history_hash());
      if (out.violated)
        out.trace = trace_of(m);
    }
    st.inc("gamma_checks", mon.checks);
    st.inc(region ? "ref_load_checks" : "array_load_checks", mon.load_checks);
    st.inc("assertions_judged", mon.verdicts.judged);
    st.inc("assertions_judged_safe_verdict", mon.verdicts.judged_safe);
    for (auto &kv : mon.pre)
      h = hash_combine(h, hash_str(kv.first + "=" + kv.second->str()));
  });
  if (!mg.ok && !out.violated) {
    out.refusal = "query failed: " + mg.msg;
    st.inc("refused_in_monitor");
  }
  st.inc("fault_f5_ntow_fired", hooks().unusual_fired);
  st.inc("gamma_refused_queries", hooks().refused_queries);
  st.inc("gamma_tag_checks", hooks().tag_checks);
  st.result_hashes.push_back(h);
  out.hash = h;
  return out;
}

std::vector<std::string> array_domains(const Tier &t) {
  return domains_with(CAP_ARRAY, CAP_REGION | CAP_BV, !t.thorough);
}
PropertyRegistrar reg_c14({"C14", "sim_prog",
                           [](Rng &r, const Tier &t, const std::vector<std::string> &d) {
                             return gen_mem("C14", GenConfig::ARRAY, r, t, d);
                           },
                           [](const Case &c, Stats &st) { return check_mem(c, st, false); },
                           array_domains});

// C15: the region/reference domain. Same monitors, on loads through references;
// in_gamma also compares is_null_ref / get_allocation_sites of every reference
// variable with the concrete heap at every block entry/exit and after every load.
std::vector<std::string> region_domains(const Tier &t) {
  return domains_with(CAP_REGION, CAP_BV, !t.thorough);
}
PropertyRegistrar reg_c15({"C15", "sim_prog",
                           [](Rng &r, const Tier &t, const std::vector<std::string> &d) {
                             return gen_mem("C15", GenConfig::REGION, r, t, d);
                           },
                           [](const Case &c, Stats &st) { return check_mem(c, st, true); },
                           region_domains});

} // namespace
} // namespace sim
