// crabsim: driver of the deterministic simulation harness.
//
//   crabsim --property C01 --tier quick|thorough [--runs N] [--workers W] [--seed S]
//   crabsim --replay FILE            re-execute a replay file (exit 1 if it violates)
//   crabsim --minimise FILE --out F  shrink a violating case
//   crabsim --selftest-determinism   run seeds twice in different process layouts
//   crabsim --list                   domains and properties
//
// One integer (VERIF_SEED / --seed) decides everything: run i of a batch uses
// mix(root, i); from the run PRNG are drawn, in a fixed order, the swarm
// configuration, the program or history, the analysis parameters, the fault
// plan and then every scheduler choice.
#include "absval.hpp"
#include "core.hpp"
#include "hooks.hpp"
#include <algorithm>
#include <chrono>
#include <csignal>
#include <cstring>
#include <dirent.h>
#include <fcntl.h>
#include <set>
#include <sys/resource.h>
#include <sys/stat.h>
#include <sys/wait.h>
#include <unistd.h>
#include <crab/support/debug.hpp>

using namespace sim;

static double now_s() {
  using namespace std::chrono;
  return duration_cast<duration<double>>(steady_clock::now().time_since_epoch()).count();
}

static std::string g_self;
static std::string g_root = "/verif";

struct Options {
  std::string property, tier = "quick", replay, minimise, out, domains;
  long runs = -1;
  int workers = 16;
  uint64_t seed = 0;
  bool seed_set = false;
  bool selftest = false, list = false, quiet = false, no_min = false, dump_case = false;
  double max_seconds = -1;
  double deadline = -1; // absolute (steady clock): set by the driver so that restarted workers share one budget
  long start_index = 0;
  std::string worker_file; // internal: worker mode
  int worker_id = -1;
  std::string overrides;   // JSON object of param overrides (neutralisers)
};

static Tier tier_of(const std::string &t) {
  Tier x;
  x.thorough = (t == "thorough");
  x.execs = x.thorough ? 120 : 40;
  return x;
}

static std::vector<std::string> split(const std::string &s, char sep) {
  std::vector<std::string> r;
  std::string cur;
  for (char ch : s) {
    if (ch == sep) {
      if (!cur.empty())
        r.push_back(cur);
      cur.clear();
    } else
      cur += ch;
  }
  if (!cur.empty())
    r.push_back(cur);
  return r;
}

// the sub-engines that make up a property id (C05 = termination + chains ...)
static std::vector<const PropertyEngine *> engines_of(const std::string &prop) {
  std::vector<const PropertyEngine *> r;
  for (auto &e : property_registry())
    if (e.id == prop || (e.id.size() > prop.size() && e.id.compare(0, prop.size(), prop) == 0 &&
                         islower((unsigned char)e.id[prop.size()])))
      r.push_back(&e);
  return r;
}

static void apply_overrides(Case &c, const std::string &ov) {
  if (ov.empty())
    return;
  Json j = Json::parse(ov);
  for (auto &kv : j.o) {
    if (kv.first == "domain")
      c.domain = kv.second.as_str();
    else if (kv.first == "rewrite") {
      for (auto &w : kv.second.a)
        rewrite_program(c.prog, w.as_str());
    } else
      c.params.set(kv.first, kv.second);
  }
}

// --------------------------------------------------------------------------
// one run: seed -> case -> outcome
// --------------------------------------------------------------------------
struct RunRecord {
  long index = 0;
  uint64_t seed = 0;
  std::string engine;
  Outcome out;
  Case cs;
};

static uint64_t run_seed(uint64_t root, long index) {
  return mix64(root ^ mix64((uint64_t)index + 0x1000)) & 0x3fffffffffffffffULL;
}

static std::string g_force_overrides;
static void apply_overrides(Case &c, const std::string &ov);

static RunRecord do_run(const std::vector<const PropertyEngine *> &engs, const Tier &tier,
                        const std::vector<std::vector<std::string>> &doms, uint64_t root,
                        long index, Stats &st) {
  RunRecord rr;
  rr.index = index;
  rr.seed = run_seed(root, index);
  size_t ei = (size_t)(index % (long)engs.size());
  const PropertyEngine *pe = engs[ei];
  rr.engine = pe->id;
  Rng r(rr.seed);
  rr.cs = pe->gen(r, tier, doms[ei]);
  rr.cs.origin_seed = rr.seed;
  if (!g_force_overrides.empty())
    apply_overrides(rr.cs, g_force_overrides);
  st.inc("runs");
  st.inc("engine_" + pe->id);
  st.inc("domain_" + rr.cs.domain);
  st.case_hashes.push_back(hash_str(rr.cs.to_json().dump()));
  rr.out = pe->check(rr.cs, st);
  if (!rr.out.refusal.empty())
    st.inc("refusal:" + rr.out.refusal.substr(0, 60));
  return rr;
}

static std::vector<std::vector<std::string>>
domains_for(const std::vector<const PropertyEngine *> &engs, const Tier &tier, const Options &o) {
  std::vector<std::vector<std::string>> doms;
  for (auto e : engs) {
    auto d = e->domains(tier);
    if (!o.domains.empty()) {
      auto want = split(o.domains, ',');
      std::vector<std::string> f;
      // --domains may also name domains outside the tier's default list
      for (auto &x : want)
        if (find_domain(x))
          f.push_back(x);
      d = f;
    }
    doms.push_back(d);
  }
  return doms;
}

// --------------------------------------------------------------------------
// worker process: handles indices start + w + k*W, appends JSON lines
// --------------------------------------------------------------------------
static int worker_main(const Options &o) {
  auto engs = engines_of(o.property);
  if (engs.empty())
    return 3;
  Tier tier = tier_of(o.tier);
  std::vector<std::vector<std::string>> doms = domains_for(engs, tier, o);
  FILE *f = fopen(o.worker_file.c_str(), "a");
  if (!f)
    return 3;
  double t0 = now_s();
  Stats st;
  long done = 0;
  for (long i = o.start_index + o.worker_id; i < o.start_index + o.runs; i += o.workers) {
    if (o.max_seconds > 0 && now_s() - t0 > o.max_seconds)
      break;
    if (o.deadline > 0 && now_s() > o.deadline)
      break;
    size_t ei = (size_t)(i % (long)engs.size());
    if (doms[ei].empty())
      continue;
    fprintf(f, "{\"start\":%ld}\n", i);
    fflush(f);
    // watchdog: a run that hangs (or blows up exponentially inside one domain
    // operation, where no tick is counted) kills this worker; the driver saves the
    // case and restarts the worker. Honest runs take milliseconds.
    alarm(tier.thorough ? 180 : 40);
    RunRecord rr = do_run(engs, tier, doms, o.seed, i, st);
    alarm(0);
    done++;
    Json line = Json::obj();
    line.set("done", rr.index);
    line.set("hash", (long long)(rr.out.hash & 0x3fffffffffffffffULL));
    if (rr.out.violated) {
      line.set("violation", rr.out.v.to_json());
      line.set("case", rr.cs.to_json());
      line.set("trace", rr.out.trace);
      line.set("engine", rr.engine);
    }
    fprintf(f, "%s\n", line.dump().c_str());
    fflush(f);
  }
  Json fin = Json::obj();
  fin.set("final", true);
  fin.set("runs_done", done);
  fin.set("stats", st.to_json());
  fprintf(f, "%s\n", fin.dump().c_str());
  fclose(f);
  return 0;
}

// --------------------------------------------------------------------------
// helpers to run ourselves in a fresh process
// --------------------------------------------------------------------------
static int run_self(const std::vector<std::string> &args, std::string *output) {
  int pfd[2];
  if (pipe(pfd) != 0)
    return -1;
  pid_t pid = fork();
  if (pid == 0) {
    close(pfd[0]);
    dup2(pfd[1], 1);
    close(pfd[1]);
    std::vector<char *> av;
    av.push_back(const_cast<char *>(g_self.c_str()));
    for (auto &a : args)
      av.push_back(const_cast<char *>(a.c_str()));
    av.push_back(nullptr);
    execv(g_self.c_str(), av.data());
    _exit(127);
  }
  close(pfd[1]);
  std::string out;
  char buf[4096];
  ssize_t n;
  while ((n = read(pfd[0], buf, sizeof buf)) > 0)
    out.append(buf, (size_t)n);
  close(pfd[0]);
  int status = 0;
  waitpid(pid, &status, 0);
  if (output)
    *output = out;
  if (WIFEXITED(status))
    return WEXITSTATUS(status);
  return 128 + (WIFSIGNALED(status) ? WTERMSIG(status) : 0);
}

// replay a case file in a fresh process; returns class ("" if no violation) and hash
static bool fresh_replay(const std::string &file, const std::string &overrides, std::string &cls,
                         std::string &hash, std::string &detail) {
  std::vector<std::string> args = {"--replay", file, "--quiet"};
  if (!overrides.empty()) {
    args.push_back("--overrides");
    args.push_back(overrides);
  }
  std::string out;
  int rc = run_self(args, &out);
  cls.clear();
  hash.clear();
  detail.clear();
  bool refused = false;
  for (auto &line : split(out, '\n')) {
    // a neutralised replay that crab (or the harness: unknown domain) refused has no
    // verdict: it must not count as "the violation disappeared"
    if (line.compare(0, 8, "REFUSAL ") == 0 && !overrides.empty())
      refused = true;
    if (line.compare(0, 6, "CLASS ") == 0)
      cls = line.substr(6);
    if (line.compare(0, 5, "HASH ") == 0)
      hash = line.substr(5);
    if (line.compare(0, 7, "DETAIL ") == 0)
      detail = line.substr(7);
  }
  if (refused && cls.empty())
    return false;
  return rc == 0 || rc == 1;
}

static int replay_main(const Options &o) {
  std::string text;
  if (!read_file(o.replay, text)) {
    fprintf(stderr, "cannot read %s\n", o.replay.c_str());
    return 3;
  }
  Json j = Json::parse(text);
  Case c = Case::from_json(j.has("case") ? j.at("case") : j);
  apply_overrides(c, o.overrides);
  std::string eng = j.has("engine") ? j.at("engine").as_str() : c.property;
  const PropertyEngine *pe = find_property(eng);
  if (!pe) {
    auto es = engines_of(c.property);
    if (es.empty()) {
      fprintf(stderr, "no engine for %s\n", eng.c_str());
      return 3;
    }
    pe = es[0];
  }
  Stats st;
  Outcome out = pe->check(c, st);
  printf("HASH %llx\n", (unsigned long long)out.hash);
  printf("TICKS %ld\n", sim::hooks().ticks);
  if (!out.refusal.empty())
    printf("REFUSAL %s\n", out.refusal.c_str());
  if (out.violated) {
    printf("CLASS %s\n", out.v.cls().c_str());
    std::string d = out.v.where + " : " + out.v.detail;
    std::replace(d.begin(), d.end(), '\n', ' ');
    printf("DETAIL %s\n", d.c_str());
    if (!o.quiet) {
      if (!c.prog.funcs.empty())
        printf("--- program\n%s", c.prog.str().c_str());
      if (c.hist.kind != Json::NUL)
        printf("--- history\n%s\n", c.hist.dump(1).c_str());
      printf("--- domain %s params %s\n", c.domain.c_str(), c.params.dump().c_str());
      printf("--- trace\n%s", out.trace.c_str());
      printf("VIOLATION property=%s replay=%s\n", c.property.c_str(), o.replay.c_str());
    }
    return 1;
  }
  if (!o.quiet)
    printf("no violation\n");
  return 0;
}

static int minimise_main(const Options &o) {
  std::string text;
  if (!read_file(o.minimise, text))
    return 3;
  Json j = Json::parse(text);
  Case c = Case::from_json(j.at("case"));
  std::string eng = j.at("engine").as_str();
  const PropertyEngine *pe = find_property(eng);
  if (!pe)
    return 3;
  Stats st;
  Outcome out = pe->check(c, st);
  if (!out.violated) {
    printf("NOT-REPRODUCED\n");
    return 2;
  }
  int reruns = 0;
  Case m = minimise(*pe, c, out.v, 400, &reruns);
  Stats st2;
  Outcome out2 = pe->check(m, st2);
  if (!out2.violated || out2.v.cls() != out.v.cls()) {
    m = c;
    out2 = out;
  }
  Json r = Json::obj();
  r.set("engine", eng);
  r.set("case", m.to_json());
  r.set("violation", out2.v.to_json());
  r.set("trace", out2.trace);
  r.set("minimiser_reruns", reruns);
  r.set("original_seed", (long long)c.origin_seed);
  write_file(o.out, r.dump(1));
  printf("MINIMISED reruns=%d\n", reruns);
  return 0;
}

// --------------------------------------------------------------------------
// known findings
// --------------------------------------------------------------------------
struct KnownFinding {
  std::string id, status, what, overrides, reproducer;
  std::vector<std::string> properties;
  Json applies_if; // optional: {"domain": name, "params": {key: value,...}} the case must match
  // attribution to this finding is only attempted on cases it can be about
  bool applies(const Json &cs, const Json *violation = nullptr) const {
    if (applies_if.kind != Json::OBJ)
      return true;
    // "monitor": the violation must come from that monitor
    if (applies_if.has("monitor")) {
      if (!violation || !violation->has("monitor") ||
          violation->at("monitor").as_str() != applies_if.at("monitor").as_str())
        return false;
    }
    // "where_contains": the place of the violation must carry a tag (e.g. "rec=1":
    // the violating frame is inside a recursive re-entry)
    if (applies_if.has("where_contains")) {
      if (!violation || !violation->has("where") ||
          violation->at("where").as_str().find(applies_if.at("where_contains").as_str()) ==
              std::string::npos)
        return false;
    }
    if (applies_if.has("domain") &&
        (!cs.has("domain") || cs.at("domain").as_str() != applies_if.at("domain").as_str()))
      return false;
    if (applies_if.has("params")) {
      if (!cs.has("params"))
        return false;
      for (auto &kv : applies_if.at("params").o)
        if (!cs.at("params").has(kv.first) ||
            cs.at("params").at(kv.first).dump() != kv.second.dump())
          return false;
    }
    return true;
  }
};
static std::vector<KnownFinding> load_known_findings() {
  std::vector<KnownFinding> r;
  std::string text;
  if (!read_file(g_root + "/known_findings.json", text))
    return r;
  Json j = Json::parse(text);
  for (auto &e : j.at("findings").a) {
    KnownFinding k;
    k.id = e.at("id").as_str();
    k.status = e.at("status").as_str();
    k.what = e.at("what").as_str();
    k.reproducer = e.at("reproducer").as_str();
    if (e.has("neutraliser"))
      k.overrides = e.at("neutraliser").dump();
    if (e.has("applies_if"))
      k.applies_if = e.at("applies_if");
    for (auto &p : e.at("properties").a)
      k.properties.push_back(p.as_str());
    r.push_back(k);
  }
  return r;
}

// --------------------------------------------------------------------------
// the check of one property
// --------------------------------------------------------------------------
struct Agg {
  std::map<std::string, long> c;
  std::set<uint64_t> paths, results, cases;
  void merge(const Json &st) {
    for (auto &kv : st.at("c").o) {
      if (kv.first.compare(0, 4, "max_") == 0)
        c[kv.first] = std::max(c[kv.first], (long)kv.second.as_int());
      else
        c[kv.first] += (long)kv.second.as_int();
    }
    for (auto &x : st.at("paths").a)
      paths.insert((uint64_t)x.as_int());
    for (auto &x : st.at("results").a)
      results.insert((uint64_t)x.as_int());
    for (auto &x : st.at("cases").a)
      cases.insert((uint64_t)x.as_int());
  }
};

static void mkdir_p(const std::string &p) {
  std::string cur;
  for (auto &part : split(p, '/')) {
    cur += "/" + part;
    mkdir(cur.c_str(), 0755);
  }
}

static int property_main(const Options &o) {
  double t0 = now_s();
  auto engs = engines_of(o.property);
  if (engs.empty()) {
    fprintf(stderr, "unknown property %s\n", o.property.c_str());
    return 3;
  }
  Tier tier = tier_of(o.tier);
  // CRABSIM_SCRATCH=<name>: an exploratory run that must not disturb the files of a
  // registered check running at the same time (out/<P>, evidence/<P>.json)
  const char *scratch = getenv("CRABSIM_SCRATCH");
  std::string outdir = scratch ? g_root + "/out_bg/" + scratch + "/" + o.property
                               : g_root + "/out/" + o.property;
  mkdir_p(outdir);
  mkdir_p(g_root + "/evidence");
  // clean old worker files
  {
    DIR *d = opendir(outdir.c_str());
    if (d) {
      while (dirent *e = readdir(d)) {
        std::string n = e->d_name;
        if (n.compare(0, 7, "worker_") == 0 || n.compare(0, 5, "cand_") == 0)
          unlink((outdir + "/" + n).c_str());
      }
      closedir(d);
    }
  }
  long runs = o.runs;
  int W = o.workers;
  printf("crabsim property=%s tier=%s seed=%llu runs=%ld workers=%d\n", o.property.c_str(),
         o.tier.c_str(), (unsigned long long)o.seed, runs, W);
  fflush(stdout);

  // known findings of this property: replay the committed reproducers first
  auto kfs = load_known_findings();
  std::vector<std::string> kf_lines;
  int exit_code = 0;
  std::vector<std::string> violation_lines;
  for (auto &k : kfs) {
    if (std::find(k.properties.begin(), k.properties.end(), o.property) == k.properties.end())
      continue;
    std::string file = g_root + "/" + k.reproducer;
    std::string cls, hash, detail;
    if (!fresh_replay(file, "", cls, hash, detail)) {
      // the reproducer killed the process: for a fixed finding (e.g. a memory
      // error) that is the defect coming back
      if (k.status == "fixed")
        violation_lines.push_back("VIOLATION property=" + o.property + " replay=" + file);
      continue;
    }
    if (k.status == "known") {
      if (!cls.empty())
        kf_lines.push_back("KNOWN-FINDING: property=" + o.property + " " + k.id + " " + k.what);
      // a known finding whose reproducer no longer fails is simply not printed
    } else {
      // fixed: suppresses nothing; a returning violation is a violation
      if (!cls.empty() && cls.compare(0, o.property.size(), o.property) == 0)
        violation_lines.push_back("VIOLATION property=" + o.property + " replay=" + file);
    }
  }

  // launch workers
  std::vector<pid_t> pids(W, -1);
  std::vector<std::string> files(W);
  std::vector<long> restart_from(W, o.start_index);
  // one time budget for the whole batch: a worker restarted after a crash or a
  // watchdog kill does not get a fresh one
  const double batch_deadline = o.max_seconds > 0 ? now_s() + o.max_seconds : -1;
  auto launch = [&](int w, long start) {
    files[w] = outdir + "/worker_" + std::to_string(w) + ".jsonl";
    pid_t pid = fork();
    if (pid == 0) {
      Options wo = o;
      wo.worker_id = w;
      wo.worker_file = files[w];
      wo.start_index = start;
      wo.runs = o.runs - (start - o.start_index);
      wo.deadline = batch_deadline;
      // stdout/stderr of crab (warnings) are not interesting
      int dn = open("/dev/null", O_WRONLY);
      if (dn >= 0) {
        dup2(dn, 2);
        dup2(dn, 1); // crab prints unguarded diagnostics on stdout
      }
      _exit(worker_main(wo));
    }
    pids[w] = pid;
  };
  for (int w = 0; w < W; w++)
    launch(w, o.start_index);
  long crashed = 0;
  std::vector<std::string> crash_notes, crash_files;
  for (int w = 0; w < W; w++) {
    for (;;) {
      int status = 0;
      waitpid(pids[w], &status, 0);
      if (WIFEXITED(status) && WEXITSTATUS(status) == 0)
        break;
      // the worker died: find the run it was executing and restart after it
      std::string text;
      read_file(files[w], text);
      long last_start = -1;
      for (auto &line : split(text, '\n'))
        if (line.compare(0, 9, "{\"start\":") == 0)
          last_start = atol(line.c_str() + 9);
      crashed++;
      bool noted = crash_notes.size() < 10;
      if (noted)
        crash_notes.push_back("worker " + std::to_string(w) + " died (status " +
                              std::to_string(status) + ") in run index " +
                              std::to_string(last_start));
      if (last_start >= 0 && crash_files.size() < 20) {
        // keep the case for triage: build/crabsim --replay <file>
        std::vector<std::string> args = {"--property", o.property, "--tier", o.tier, "--seed",
                                         std::to_string(o.seed), "--start",
                                         std::to_string(last_start), "--dump-case"};
        if (!o.domains.empty()) {
          args.push_back("--domains");
          args.push_back(o.domains);
        }
        std::string dumped;
        if (run_self(args, &dumped) == 0) {
          std::string cf = outdir + "/crash_" + std::to_string(o.seed) + "_" +
                           std::to_string(last_start) + ".replay.json";
          write_file(cf, dumped);
          crash_files.push_back(cf);
          if (noted)
            crash_notes.back() += " case=" + cf;
        }
      }
      if (last_start < 0 || crashed > 200)
        break;
      if (batch_deadline > 0 && now_s() > batch_deadline)
        break; // the batch's time is used up: no restart
      // next index of this worker's stride
      long next = last_start + W;
      if (next >= o.start_index + o.runs)
        break;
      // keep the stride: the worker computes start + worker_id + k*W
      launch(w, next - w);
    }
  }

  // collect
  Agg agg;
  struct Cand {
    Json line;
  };
  std::vector<Json> cands;
  long runs_done = 0;
  for (int w = 0; w < W; w++) {
    std::string text;
    if (!read_file(files[w], text))
      continue;
    for (auto &line : split(text, '\n')) {
      if (line.empty() || line[0] != '{')
        continue;
      Json j;
      try {
        j = Json::parse(line);
      } catch (...) {
        continue;
      }
      if (j.has("final")) {
        agg.merge(j.at("stats"));
        runs_done += (long)j.at("runs_done").as_int();
      } else if (j.has("violation"))
        cands.push_back(j);
    }
  }
  // deterministic order of candidates
  std::sort(cands.begin(), cands.end(), [](const Json &a, const Json &b) {
    return a.at("done").as_int() < b.at("done").as_int();
  });

  // process candidates. Every candidate goes through the determinism gate and
  // through attribution to the known findings (replay with each finding's
  // neutraliser: attributed iff the violation class disappears), so a new
  // violation is never hidden behind a frequent known one. Only the first few
  // unattributed candidates are minimised and reported.
  std::map<std::string, int> per_class;
  std::set<std::string> kf_hit;
  std::map<std::string, long> kf_count;
  long nondeterministic = 0, violations_found = (long)cands.size(), attributed_total = 0;
  std::vector<Json> sample_violations;
  int reported = 0, gated = 0;
  for (auto &cj : cands) {
    std::string cls = cj.at("violation").at("property").as_str() + "/" +
                      cj.at("violation").at("monitor").as_str() + "/" +
                      cj.at("violation").at("item").as_str();
    if (gated >= 400)
      break; // a bound on the post-processing time; the rest is counted as unprocessed
    gated++;
    long idx = (long)cj.at("done").as_int();
    std::string raw = outdir + "/cand_" + std::to_string(idx) + ".raw.json";
    Json rawj = Json::obj();
    rawj.set("engine", cj.at("engine"));
    rawj.set("case", cj.at("case"));
    rawj.set("violation", cj.at("violation"));
    rawj.set("trace", cj.at("trace"));
    write_file(raw, rawj.dump(1));
    // determinism gate: two fresh processes must agree (the second replay is done
    // below, only for candidates that are not attributed to a known finding)
    std::string c1, h1, d1, c2, h2, d2;
    fresh_replay(raw, "", c1, h1, d1);
    if (c1 != cls) {
      nondeterministic++;
      printf("NONDETERMINISTIC run=%ld class=%s replay1=%s/%s file=%s\n", idx, cls.c_str(),
             c1.c_str(), h1.c_str(), raw.c_str());
      continue;
    }
    // attribution on the raw case
    std::string attributed;
    for (auto &k : kfs) {
      if (k.status != "known" || k.overrides.empty())
        continue;
      if (std::find(k.properties.begin(), k.properties.end(), o.property) == k.properties.end())
        continue;
      if (!k.applies(cj.at("case"), &cj.at("violation")))
        continue;
      std::string cn, hn, dn;
      if (fresh_replay(raw, k.overrides, cn, hn, dn) && cn != cls) {
        attributed = k.id;
        break;
      }
    }
    if (!attributed.empty()) {
      attributed_total++;
      kf_count[attributed]++;
      if (kf_hit.insert(attributed).second) {
        std::string keep = outdir + "/" + std::to_string(o.seed) + "_" + std::to_string(idx) +
                           "." + attributed + ".replay.json";
        write_file(keep, rawj.dump(1));
        for (auto &k : kfs)
          if (k.id == attributed)
            kf_lines.push_back("KNOWN-FINDING: property=" + o.property + " " + k.id + " " +
                               k.what + " (met again by seeded search, replay=" + keep + ")");
      }
      unlink(raw.c_str());
      continue;
    }
    fresh_replay(raw, "", c2, h2, d2);
    if (c2 != cls || h1 != h2) {
      nondeterministic++;
      printf("NONDETERMINISTIC run=%ld class=%s replay1=%s/%s replay2=%s/%s file=%s\n", idx,
             cls.c_str(), c1.c_str(), h1.c_str(), c2.c_str(), h2.c_str(), raw.c_str());
      continue;
    }
    if (per_class[cls] >= 3 || reported >= 12) {
      // still a violation: make sure the run fails even if it is not minimised
      if (reported >= 12 || per_class[cls] >= 3) {
        per_class[cls]++;
        continue;
      }
    }
    per_class[cls]++;
    reported++;
    std::string fin = outdir + "/" + std::to_string(o.seed) + "_" + std::to_string(idx) +
                      ".replay.json";
    if (o.no_min) {
      write_file(fin, rawj.dump(1));
    } else {
      std::string mo;
      int rc = run_self({"--minimise", raw, "--out", fin}, &mo);
      if (rc != 0)
        write_file(fin, rawj.dump(1));
    }
    std::string c3, h3, d3, c4, h4, d4;
    fresh_replay(fin, "", c3, h3, d3);
    fresh_replay(fin, "", c4, h4, d4);
    bool min_ok = (c3 == cls && c4 == cls && h3 == h4);
    if (min_ok) {
      // the minimised case must not have drifted into a known finding
      for (auto &k : kfs) {
        if (k.status != "known" || k.overrides.empty())
          continue;
        if (std::find(k.properties.begin(), k.properties.end(), o.property) ==
            k.properties.end())
          continue;
        if (!k.applies(cj.at("case"), &cj.at("violation")))
          continue;
        std::string cn, hn, dn;
        if (fresh_replay(fin, k.overrides, cn, hn, dn) && cn != cls)
          min_ok = false;
      }
    }
    if (!min_ok) {
      // the minimised file must fail the same way; fall back to the raw case
      write_file(fin, rawj.dump(1));
      d3 = d1;
    }
    violation_lines.push_back("VIOLATION property=" + o.property + " replay=" + fin);
    printf("  class=%s\n  %s\n", cls.c_str(), d3.c_str());
    if (sample_violations.size() < 3)
      sample_violations.push_back(cj.at("violation"));
  }

  {
    // one line per finding: the longer ("met again by seeded search") variant wins
    std::map<std::string, std::string> by_id;
    for (auto &l : kf_lines) {
      std::vector<std::string> w = split(l, ' ');
      std::string id = w.size() > 2 ? w[2] : l;
      if (!by_id.count(id) || by_id[id].size() < l.size())
        by_id[id] = l;
    }
    kf_lines.clear();
    for (auto &kv : by_id)
      kf_lines.push_back(kv.second);
  }
  for (auto &l : kf_lines)
    printf("%s\n", l.c_str());
  for (auto &l : crash_notes)
    printf("NOTE %s\n", l.c_str());
  for (auto &l : violation_lines)
    printf("%s\n", l.c_str());
  if (!violation_lines.empty())
    exit_code = 1;
  else if (nondeterministic > 0)
    exit_code = 2;

  // evidence
  double wall = now_s() - t0;
  Json ev = Json::obj();
  ev.set("property_id", o.property);
  ev.set("tier", o.tier);
  ev.set("seed", (long long)o.seed);
  ev.set("level", "exploration");
  Json cov = Json::obj();
  long evaluations = agg.c["runs"];
  cov.set("evaluations", evaluations);
  long distinct = (long)std::max(agg.results.size(), (size_t)0);
  cov.set("distinct_nontrivial", distinct);
  cov.set("rule",
          "one evaluation = one seeded run: a generated case (program + domain + analysis "
          "parameters + knobs + fault plan, or an operation history) checked by the real crab "
          "code under the property's monitors. distinct_nontrivial counts distinct hashes of "
          "(abstract results, execution histories) over runs that crab accepted and analysed; "
          "runs that crab refused or that produced an identical observable result are not "
          "counted twice.");
  Json counters = Json::obj();
  for (auto &kv : agg.c)
    counters.set(kv.first, kv.second);
  cov.set("counters", counters);
  cov.set("distinct_cases", (long)agg.cases.size());
  cov.set("distinct_block_paths", (long)agg.paths.size());
  cov.set("distinct_results", (long)agg.results.size());
  cov.set("runs_per_hour", wall > 0 ? (double)evaluations * 3600.0 / wall : 0.0);
  cov.set("simulated_time_machine_steps", agg.c["machine_steps"]);
  cov.set("simulated_time_analyser_ticks", agg.c["analysis_ticks"]);
  Json faults = Json::obj();
  for (auto &kv : agg.c)
    if (kv.first.compare(0, 6, "fault_") == 0)
      faults.set(kv.first, kv.second);
  cov.set("fault_kinds_fired", faults);
  cov.set("workers", W);
  cov.set("worker_crashes", crashed);
  {
    Json cf = Json::arr();
    for (auto &f : crash_files)
      cf.push(f);
    cov.set("worker_crash_cases", cf);
  }
  cov.set("violation_candidates", violations_found);
  cov.set("nondeterministic_candidates", nondeterministic);
  cov.set("candidates_attributed_to_known_findings", attributed_total);
  {
    Json kc = Json::obj();
    for (auto &kv : kf_count)
      kc.set(kv.first, kv.second);
    cov.set("known_finding_hits", kc);
  }
  Json kfj = Json::arr();
  for (auto &l : kf_lines)
    kfj.push(l);
  cov.set("known_findings_printed", kfj);
  cov.set("real_code",
          "crab IR builder, type checker, WTO, fixpoint iterators, abstract transformers, "
          "domains, checkers, analysers, dataflow analyses, transformations (all from the "
          "current /repo tree, compiled with -DCRAB_VERIF_SIM)");
  cov.set("stub", "CrabIR concrete machine, SimIR generator, witness mirror (sim_hist)");
  // samples: regenerate the first cases of this batch
  Json samples = Json::arr();
  {
    std::vector<std::vector<std::string>> doms = domains_for(engs, tier, o);
    for (long i = o.start_index; i < o.start_index + std::min<long>(runs, (long)engs.size() * 2);
         i++) {
      size_t ei = (size_t)(i % (long)engs.size());
      if (doms[ei].empty())
        continue;
      Rng r(run_seed(o.seed, i));
      Case c = engs[ei]->gen(r, tier, doms[ei]);
      Json s = Json::obj();
      s.set("run_index", i);
      s.set("engine", engs[ei]->id);
      s.set("domain", c.domain);
      s.set("params", c.params);
      if (!c.prog.funcs.empty())
        s.set("program", c.prog.str());
      if (c.hist.kind != Json::NUL)
        s.set("history", c.hist);
      samples.push(s);
      if (samples.size() >= 3)
        break;
    }
  }
  cov.set("samples", samples);
  ev.set("coverage", cov);
  Json as = Json::arr();
  as.push("the reference concrete semantics of CrabIR (sim/machine.cpp) is the documented one");
  as.push("sampling, not enumeration: a clean batch is evidence, not proof");
  as.push("oracles are one-sided towards soundness");
  if (o.property == "C13")
    as.push("BV profile of the stub: two's-complement values modulo 2^w; a linear constraint is only "
            "judged in states where its mathematical and its modular reading agree (DESIGN.md 4.5); "
            "decides the domain half of the property, wrapint/wrapped_interval run underneath as real code");
  if (o.property == "C15")
    as.push("tags travel with copies only in the stub (store of a variable, load, region_copy): an "
            "under-approximation of any taint semantics");
  if (o.property == "C18")
    as.push("control dependences are judged against a reference control-dependence graph "
            "(post-dominators on the generated graph; loop heads not self-dependent, as in crab)");
  ev.set("assumptions", as);
  ev.set("wall_s", wall);
  ev.set("violations", (long)violation_lines.size());
  write_file(scratch ? outdir + "/evidence.json" : g_root + "/evidence/" + o.property + ".json",
             ev.dump(1));

  printf("summary property=%s runs=%ld distinct_results=%zu paths=%zu candidates=%ld "
         "violations=%zu known=%zu crashes=%ld wall=%.1fs\n",
         o.property.c_str(), evaluations, agg.results.size(), agg.paths.size(), violations_found,
         violation_lines.size(), kf_lines.size(), crashed, wall);
  return exit_code;
}

// --------------------------------------------------------------------------
// determinism self-test: the same seeds in different process layouts must
// give identical per-run hashes
// --------------------------------------------------------------------------
static std::map<long, std::string> hashes_of_layout(const Options &base, int workers, long runs,
                                                    const std::string &tag) {
  std::map<long, std::string> r;
  std::string dir = g_root + "/out/selftest_" + tag;
  mkdir_p(dir);
  std::vector<pid_t> pids;
  std::vector<std::string> files;
  for (int w = 0; w < workers; w++) {
    std::string f = dir + "/w" + std::to_string(w) + ".jsonl";
    unlink(f.c_str());
    files.push_back(f);
    pid_t pid = fork();
    if (pid == 0) {
      Options wo = base;
      wo.worker_id = w;
      wo.workers = workers;
      wo.worker_file = f;
      wo.runs = runs;
      int dn = open("/dev/null", O_WRONLY);
      if (dn >= 0)
        dup2(dn, 2);
      _exit(worker_main(wo));
    }
    pids.push_back(pid);
  }
  for (auto p : pids) {
    int st;
    waitpid(p, &st, 0);
  }
  for (auto &f : files) {
    std::string text;
    read_file(f, text);
    for (auto &line : split(text, '\n')) {
      if (line.find("\"done\"") == std::string::npos)
        continue;
      Json j = Json::parse(line);
      r[(long)j.at("done").as_int()] =
          std::to_string(j.at("hash").as_int()) + (j.has("violation") ? "V" : "");
    }
    unlink(f.c_str());
  }
  return r;
}

static int selftest_main(const Options &o) {
  int bad = 0;
  long total = 0;
  std::vector<std::string> props;
  if (!o.property.empty())
    props.push_back(o.property);
  else {
    std::set<std::string> s;
    for (auto &e : property_registry()) {
      std::string id = e.id;
      while (!id.empty() && islower((unsigned char)id.back()))
        id.pop_back();
      s.insert(id);
    }
    props.assign(s.begin(), s.end());
  }
  long runs = o.runs > 0 ? o.runs : 200;
  for (auto &p : props) {
    Options b = o;
    b.property = p;
    b.max_seconds = -1;
    auto a = hashes_of_layout(b, 16, runs, "a");
    auto c = hashes_of_layout(b, 1, std::min<long>(runs, 60), "b");
    auto d = hashes_of_layout(b, 5, runs, "c");
    for (auto &kv : a) {
      total++;
      auto it = d.find(kv.first);
      if (it == d.end() || it->second != kv.second) {
        bad++;
        printf("DIVERGENCE property=%s run=%ld 16w=%s 5w=%s\n", p.c_str(), kv.first,
               kv.second.c_str(), it == d.end() ? "missing" : it->second.c_str());
      }
      auto jt = c.find(kv.first);
      if (jt != c.end() && jt->second != kv.second) {
        bad++;
        printf("DIVERGENCE property=%s run=%ld 16w=%s 1w=%s\n", p.c_str(), kv.first,
               kv.second.c_str(), jt->second.c_str());
      }
    }
    printf("selftest-determinism property=%s runs=%zu compared\n", p.c_str(), a.size());
  }
  printf("selftest-determinism total=%ld divergences=%d\n", total, bad);
  return bad ? 2 : 0;
}

int main(int argc, char **argv) {
  {
    char buf[4096];
    ssize_t n = readlink("/proc/self/exe", buf, sizeof buf - 1);
    if (n > 0) {
      buf[n] = 0;
      g_self = buf;
    } else
      g_self = argv[0];
  }
  if (const char *r = getenv("VERIF_ROOT"))
    g_root = r;
  // The fixpoint over a recursive function is itself recursive in crab: a
  // diverging analysis must exhaust its tick budget (a C05 violation), not the
  // 8 MB default stack (a crash). Re-exec once with a 2 GB stack limit.
  if (!getenv("CRABSIM_BIG_STACK")) {
    struct rlimit rl;
    if (getrlimit(RLIMIT_STACK, &rl) == 0) {
      rlim_t want = (rlim_t)2048 * 1024 * 1024;
      if (rl.rlim_max != RLIM_INFINITY && rl.rlim_max < want)
        want = rl.rlim_max;
      if (rl.rlim_cur == RLIM_INFINITY || rl.rlim_cur < want) {
        rl.rlim_cur = want;
        if (setrlimit(RLIMIT_STACK, &rl) == 0) {
          setenv("CRABSIM_BIG_STACK", "1", 1);
          execv(g_self.c_str(), argv);
        }
      }
    }
  }
  Options o;
  for (int i = 1; i < argc; i++) {
    std::string a = argv[i];
    auto next = [&]() -> std::string { return i + 1 < argc ? argv[++i] : ""; };
    if (a == "--property")
      o.property = next();
    else if (a == "--tier")
      o.tier = next();
    else if (a == "--runs")
      o.runs = atol(next().c_str());
    else if (a == "--workers")
      o.workers = atoi(next().c_str());
    else if (a == "--seed") {
      o.seed = strtoull(next().c_str(), nullptr, 10);
      o.seed_set = true;
    } else if (a == "--replay")
      o.replay = next();
    else if (a == "--minimise")
      o.minimise = next();
    else if (a == "--out")
      o.out = next();
    else if (a == "--domains")
      o.domains = next();
    else if (a == "--overrides")
      o.overrides = next();
    else if (a == "--force")
      g_force_overrides = next(); // overrides applied to every generated case (experiments)
    else if (a == "--max-seconds")
      o.max_seconds = atof(next().c_str());
    else if (a == "--start")
      o.start_index = atol(next().c_str());
    else if (a == "--selftest-determinism")
      o.selftest = true;
    else if (a == "--list")
      o.list = true;
    else if (a == "--dump-case")
      o.dump_case = true;
    else if (a == "--worker-id")
      o.worker_id = atoi(next().c_str());
    else if (a == "--worker-file")
      o.worker_file = next();
    else if (a == "--quiet")
      o.quiet = true;
    else if (a == "--no-minimise")
      o.no_min = true;
    else {
      fprintf(stderr, "unknown option %s\n", a.c_str());
      return 3;
    }
  }
  crab::CrabEnableWarningMsg(false);
  if (const char *l = getenv("CRABSIM_LOG")) // debugging aid: crab's own log tags
    for (auto &t : split(l, ','))
      crab::CrabEnableLog(t);
  if (const char *v = getenv("CRABSIM_VERBOSE"))
    crab::CrabEnableVerbosity((unsigned)atoi(v));
  if (!o.seed_set) {
    if (const char *s = getenv("VERIF_SEED"))
      o.seed = strtoull(s, nullptr, 10);
    else
      o.seed = (o.tier == "thorough") ? 20260925 : 1;
  }
  if (o.list) {
    for (auto &d : domain_registry())
      printf("domain %s caps=%u\n", d.name.c_str(), d.caps);
    for (auto &p : property_registry())
      printf("engine %s (%s)\n", p.id.c_str(), p.engine.c_str());
    return 0;
  }
  if (!o.replay.empty())
    return replay_main(o);
  if (!o.minimise.empty())
    return minimise_main(o);
  if (o.selftest)
    return selftest_main(o);
  if (o.property.empty()) {
    fprintf(stderr, "need --property\n");
    return 3;
  }
  if (o.worker_id >= 0 && !o.worker_file.empty()) {
    if (o.runs < 0)
      o.runs = 1000;
    return worker_main(o); // debugging: run one worker's stride in the foreground
  }
  if (o.dump_case) {
    // print the case generated for run index --start (no check is run)
    auto engs = engines_of(o.property);
    Tier tier = tier_of(o.tier);
    size_t ei = (size_t)(o.start_index % (long)engs.size());
    Rng r(run_seed(o.seed, o.start_index));
    Case c = engs[ei]->gen(r, tier, domains_for(engs, tier, o)[ei]);
    c.origin_seed = run_seed(o.seed, o.start_index);
    Json j = Json::obj();
    j.set("engine", engs[ei]->id);
    j.set("case", c.to_json());
    printf("%s\n", j.dump(1).c_str());
    return 0;
  }
  if (o.runs < 0)
    o.runs = (o.tier == "thorough") ? 400000 : 100000;
  if (o.max_seconds < 0)
    o.max_seconds = (o.tier == "thorough") ? 1200 : 60;
  return property_main(o);
}
