#include "dataflow.hpp"
#include <crab/analysis/dataflow/assertion_crawler.hpp>
#include <crab/analysis/dataflow/liveness.hpp>
#include <crab/transforms/dce.hpp>
#include <crab/transforms/lower_safe_assertions.hpp>

namespace sim {
using namespace crab::analyzer;

LiveInfo run_liveness(CrabFunction &fn) {
  LiveInfo li;
  cfg_ref_t ref(*fn.cfg);
  live_and_dead_analysis<cfg_ref_t> lad(ref);
  lad.exec();
  liveness_analysis<cfg_ref_t> live(ref);
  live.exec();
  for (auto it = fn.cfg->label_begin(), et = fn.cfg->label_end(); it != et; ++it) {
    const std::string &l = *it;
    auto ls = live.get(l);
    std::set<std::string> names;
    if (!ls.is_top())
      for (auto v : ls)
        names.insert(v.name().str());
    li.live_out[l] = names;
    auto ds = lad.dead_exit(l);
    std::set<std::string> dn;
    if (!ds.is_top())
      for (auto v : ds)
        dn.insert(v.name().str());
    li.dead_exit[l] = dn;
  }
  return li;
}

CrawlerInfo run_crawler(CrabFunction &fn, bool only_data) {
  CrawlerInfo ci;
  using crawler_t = assertion_crawler<cfg_ref_t>;
  typename crawler_t::assert_map_t assert_map;
  typename crawler_t::summary_map_t summaries;
  cfg_ref_t ref(*fn.cfg);
  crawler_t cr(ref, assert_map, summaries, only_data);
  cr.exec();
  for (auto it = fn.cfg->label_begin(), et = fn.cfg->label_end(); it != et; ++it) {
    const std::string &l = *it;
    auto res = cr.get_results(l);
    if (res.is_top()) {
      ci.top_blocks.insert(l);
      continue;
    }
    auto &m = ci.facts[l];
    for (auto kv : res) {
      int64_t id = kv.first.get().get_debug_info().get_id();
      std::set<std::string> names;
      if (kv.second.is_top())
        ci.vars_top[l][id] = true;
      else
        for (auto v : kv.second)
          names.insert(v.name().str());
      m[id] = names;
    }
  }
  return ci;
}

std::unique_ptr<CrabFunction> clone_function(const CrabFunction &fn) {
  std::unique_ptr<CrabFunction> c(new CrabFunction());
  c->src = fn.src;
  c->vars = fn.vars;
  c->cfg.reset(fn.cfg->clone());
  return c;
}

bool transform_simplify(CrabFunction &fn) {
  fn.cfg->simplify();
  return true;
}

bool transform_dce(CrabFunction &fn) {
  cfg_ref_t ref(*fn.cfg);
  crab::transforms::dead_code_elimination<cfg_ref_t> dce;
  return dce.run(ref);
}

bool transform_lower(CrabFunction &fn, const std::set<int64_t> &ids) {
  std::set<const stmt_t *> safe;
  for (auto &b : *fn.cfg)
    for (auto &s : b)
      if ((s.is_assert() || s.is_bool_assert() || s.is_ref_assert()) &&
          ids.count(s.get_debug_info().get_id()))
        safe.insert(&s);
  cfg_ref_t ref(*fn.cfg);
  crab::transforms::lower_safe_assertions<cfg_ref_t> lsa(safe);
  return lsa.run(ref);
}

std::string cfg_structure_problem(CrabFunction &fn) {
  cfg_t &g = *fn.cfg;
  std::set<std::string> labels;
  for (auto it = g.label_begin(), et = g.label_end(); it != et; ++it)
    labels.insert(*it);
  if (!labels.count(g.entry()))
    return "entry block " + g.entry() + " does not exist";
  if (g.has_exit() && !labels.count(g.exit()))
    return "exit block " + g.exit() + " does not exist";
  for (auto &l : labels) {
    block_t &b = g.get_node(l);
    for (auto const &s : boost::make_iterator_range(b.next_blocks())) {
      if (!labels.count(s))
        return "block " + l + " has a successor " + s + " that does not exist";
      block_t &sb = g.get_node(s);
      bool found = false;
      for (auto const &p : boost::make_iterator_range(sb.prev_blocks()))
        if (p == l)
          found = true;
      if (!found)
        return "edge " + l + "->" + s + " is missing from the predecessor list of " + s;
    }
    for (auto const &p : boost::make_iterator_range(b.prev_blocks())) {
      if (!labels.count(p))
        return "block " + l + " has a predecessor " + p + " that does not exist";
      block_t &pb = g.get_node(p);
      bool found = false;
      for (auto const &s : boost::make_iterator_range(pb.next_blocks()))
        if (s == l)
          found = true;
      if (!found)
        return "edge " + p + "->" + l + " is missing from the successor list of " + p;
    }
  }
  return "";
}

} // namespace sim
