// crab client definitions for the simulator (the role tests/crab_lang.hpp
// plays for crab's own tests): variable names are strings, block labels
// are strings, numbers are crab's z_number.
#pragma once
#include <crab/cfg/basic_block_traits.hpp>
#include <crab/cfg/cfg.hpp>
#include <crab/cg/cg.hpp>
#include <crab/support/debug.hpp>
#include <crab/types/tag.hpp>
#include <crab/types/varname_factory.hpp>

namespace simc {
using variable_factory_t = crab::var_factory_impl::str_variable_factory;
using varname_t = typename variable_factory_t::varname_t;
using label_t = std::string;
using number_t = ikos::z_number;
using cfg_t = crab::cfg::cfg<label_t, varname_t, number_t>;
using cfg_ref_t = crab::cfg::cfg_ref<cfg_t>;
using cfg_rev_t = crab::cfg::cfg_rev<cfg_ref_t>;
using block_t = cfg_t::basic_block_t;
using stmt_t = cfg_t::statement_t;
using var_t = crab::variable<number_t, varname_t>;
using var_or_cst_t = crab::variable_or_constant<number_t, varname_t>;
using lin_exp_t = ikos::linear_expression<number_t, varname_t>;
using lin_cst_t = ikos::linear_constraint<number_t, varname_t>;
using lin_cst_sys_t = ikos::linear_constraint_system<number_t, varname_t>;
using disj_lin_cst_sys_t = ikos::disjunctive_linear_constraint_system<number_t, varname_t>;
using ref_cst_t = crab::reference_constraint<number_t, varname_t>;
using interval_t = ikos::interval<number_t>;
using fdecl_t = crab::cfg::function_decl<number_t, varname_t>;
using cg_t = crab::cg::call_graph<cfg_ref_t>;
using cg_ref_t = crab::cg::call_graph_ref<cg_t>;
} // namespace simc

namespace crab {
template <> class variable_name_traits<std::string> {
public:
  static std::string to_string(std::string varname) { return varname; }
};
template <> class basic_block_traits<simc::block_t> {
public:
  using bb_label_t = typename simc::block_t::basic_block_label_t;
  static std::string to_string(const bb_label_t &bbl) { return bbl; }
};
} // namespace crab
