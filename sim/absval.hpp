// The simulator's view of "an abstract value of some crab domain". Every
// engine and monitor is written once against this interface; each domain
// translation unit instantiates AbsValImpl<D> (absval_impl.hpp) for its
// domain D, and one TU instantiates it for crab's own type-erased wrapper
// abstract_domain_ref (which is the domain type all analysers run with).
#pragma once
#include "crabdefs.hpp"
#include <crab/domains/abstract_domain_operators.hpp>
#include <crab/domains/boolean.hpp>
#include <crab/domains/interval.hpp>
#include <crab/fixpoint/thresholds.hpp>
#include <functional>
#include <memory>
#include <string>
#include <vector>

namespace crab {
namespace domains {
template <typename Variable> class abstract_domain_ref;
}
} // namespace crab

namespace sim {
using namespace simc;
using dom_t = crab::domains::abstract_domain_ref<var_t>;

struct AbsVal {
  using P = std::unique_ptr<AbsVal>;
  virtual ~AbsVal() {}
  virtual P clone() const = 0;
  virtual void copy_from(const AbsVal &o) = 0; // *this = o (copy assignment)
  virtual void move_from(AbsVal &o) = 0;       // *this = std::move(o)
  virtual P make_top() const = 0;
  virtual P make_bottom() const = 0;
  virtual void set_to_top() = 0;
  virtual void set_to_bottom() = 0;
  virtual bool is_bottom() const = 0;
  virtual bool is_top() const = 0;
  virtual bool leq(const AbsVal &o) const = 0;
  virtual P join(const AbsVal &o) const = 0;
  virtual P meet(const AbsVal &o) const = 0;
  virtual P widen(const AbsVal &o) const = 0;
  virtual P narrow(const AbsVal &o) const = 0;
  virtual P widen_thresholds(const AbsVal &o, const crab::thresholds<number_t> &ts) const = 0;
  virtual void join_with(const AbsVal &o) = 0;
  virtual void meet_with(const AbsVal &o) = 0;

  virtual void apply(crab::domains::arith_operation_t op, const var_t &x, const var_t &y,
                     const var_t &z) = 0;
  virtual void apply(crab::domains::arith_operation_t op, const var_t &x, const var_t &y,
                     number_t k) = 0;
  virtual void apply(crab::domains::bitwise_operation_t op, const var_t &x, const var_t &y,
                     const var_t &z) = 0;
  virtual void apply(crab::domains::bitwise_operation_t op, const var_t &x, const var_t &y,
                     number_t k) = 0;
  virtual void apply(crab::domains::int_conv_operation_t op, const var_t &dst,
                     const var_t &src) = 0;
  virtual void assign(const var_t &x, const lin_exp_t &e) = 0;
  virtual void weak_assign(const var_t &x, const lin_exp_t &e) = 0;
  virtual void add_constraints(const lin_cst_sys_t &csts) = 0;
  virtual bool entails(const lin_cst_t &c) const = 0;
  virtual void select(const var_t &lhs, const lin_cst_t &cond, const lin_exp_t &e1,
                      const lin_exp_t &e2) = 0;
  virtual void assign_bool_cst(const var_t &lhs, const lin_cst_t &rhs) = 0;
  virtual void assign_bool_var(const var_t &lhs, const var_t &rhs, bool is_not) = 0;
  virtual void apply_binary_bool(crab::domains::bool_operation_t op, const var_t &x,
                                 const var_t &y, const var_t &z) = 0;
  virtual void assume_bool(const var_t &v, bool is_negated) = 0;
  virtual void select_bool(const var_t &lhs, const var_t &cond, const var_t &b1,
                           const var_t &b2) = 0;

  virtual void forget(const var_t &v) = 0;
  virtual void forget(const std::vector<var_t> &vs) = 0;
  virtual void project(const std::vector<var_t> &vs) = 0;
  virtual void rename(const std::vector<var_t> &from, const std::vector<var_t> &to) = 0;
  virtual void expand(const var_t &v, const var_t &nv) = 0;
  virtual void normalize() = 0;
  virtual void minimize() = 0;
  virtual interval_t index(const var_t &v) = 0; // operator[] (may normalise)
  virtual interval_t at(const var_t &v) const = 0;
  virtual lin_cst_sys_t to_lin() const = 0;
  virtual disj_lin_cst_sys_t to_disj() const = 0;

  virtual crab::domains::boolean_value is_null_ref(const var_t &ref) = 0;
  virtual bool get_allocation_sites(const var_t &ref, std::vector<crab::tag> &out) = 0;
  virtual bool get_tags(const var_t &rgn, const var_t &ref, std::vector<uint64_t> &out) = 0;

  // intrinsic without outputs over variables (value_partition_start / _end)
  virtual void intrinsic(const std::string &name, const std::vector<var_t> &inputs) = 0;

  virtual std::string str() const = 0;
  virtual std::string domain_name() const = 0;
};

enum Caps : unsigned {
  CAP_BOOL = 1,        // models boolean variables (otherwise they are ignored soundly)
  CAP_ARRAY = 2,       // array domain
  CAP_REGION = 4,      // region/reference domain
  CAP_EXACT_EXPORT = 8,  // to_linear_constraint_system() is the exact meaning
  CAP_INT64 = 16,      // raw int64 weights: magnitudes limited to 2^61
  CAP_NTOW = 32,       // uses NtoW::convert (fault F5 applies)
  CAP_BACKWARD = 64,   // implements precise backward operations
  CAP_NONREL = 128,    // non-relational
  CAP_SLOW = 256,      // expensive: fewer runs in quick tier
  CAP_CORE = 512,      // part of the quick tier
  CAP_FINITE = 1024,   // finite-height lattice (no widening needed)
  CAP_BV = 2048,       // machine-integer (wrap-around) semantics: BV profile only
  CAP_PARTITION = 4096 // value partitioning: partitions are started/ended by intrinsics
};

struct DomainInfo {
  std::string name;
  unsigned caps = 0;
  std::function<AbsVal::P()> make_raw;     // top of the unwrapped domain
  std::function<AbsVal::P()> make_wrapped; // top, inside abstract_domain_ref
  std::function<dom_t *()> make_dom;       // new dom_t(top) for the analysers
};

std::vector<DomainInfo> &domain_registry();
const DomainInfo *find_domain(const std::string &name);
struct DomainRegistrar {
  DomainRegistrar(const DomainInfo &d);
};

// wrap a dom_t (result of an analysis) as AbsVal
AbsVal::P wrap_dom(const dom_t &d);
// access the dom_t inside an AbsVal created by wrap_dom / make_wrapped
const dom_t &unwrap_dom(const AbsVal &v);

} // namespace sim
