// Facades over crab's real inter-procedural analysers (instantiated with dom_t).
#pragma once
#include "analyses.hpp"

namespace sim {

struct InterCfg {
  bool only_main = false;
  unsigned delay = 1, desc = 1, thr = 0;
  bool run_checker = true;
  unsigned max_ctx = 0xffffffffu; // UINT_MAX = unbounded
  bool analyze_recursive = false;
  bool exact_reuse = true;
  bool liveness = false;
};

struct SummaryPair {
  AbsVal::P pre, post;
};

class TopDown {
public:
  virtual ~TopDown() {}
  static std::unique_ptr<TopDown> create(CrabProgram &p, const dom_t &top, InterCfg c);
  virtual void run(const dom_t &init) = 0;
  virtual AbsVal::P pre(CrabFunction &f, const std::string &label) = 0;
  virtual AbsVal::P post(CrabFunction &f, const std::string &label) = 0;
  virtual std::vector<SummaryPair> summary(CrabFunction &f) = 0;
  virtual CheckResult checks() = 0;
  virtual std::vector<std::string> entries() = 0;
};

class BottomUp {
public:
  virtual ~BottomUp() {}
  static std::unique_ptr<BottomUp> create(CrabProgram &p, const dom_t &td_top, const dom_t &bu_top,
                                          InterCfg c);
  virtual void run(const dom_t &init) = 0;
  virtual AbsVal::P pre(CrabFunction &f, const std::string &label) = 0;
  virtual AbsVal::P post(CrabFunction &f, const std::string &label) = 0;
  virtual std::vector<SummaryPair> summary(CrabFunction &f) = 0;
  virtual CheckResult checks() = 0;
};

} // namespace sim
