// C11: the backward analysis returns necessary preconditions. History check:
// on a run that ends in an assertion violation (error mode) or that completes
// the exit block in a good final state (good mode), every earlier block-entry
// state must be described by the precondition computed for that block.
#include "prop_common.hpp"

namespace sim {
namespace {

struct HistoryMonitor : Monitor {
  CrabFunction &fn;
  std::vector<std::pair<std::string, Sigma>> hist;
  HistoryMonitor(CrabFunction &f) : fn(f) {}
  bool on_block_entry(Machine &m, Frame &f, const std::string &label) override {
    if (f.depth == 0)
      hist.push_back({label, sigma_of(f.st, fn.vars, &m.heap)});
    return true;
  }
};

Case gen_c11(Rng &r, const Tier &t, const std::vector<std::string> &doms) {
  Case c;
  c.property = "C11";
  c.domain = doms[r.below(doms.size())];
  const DomainInfo *di = find_domain(c.domain);
  GenConfig::Profile prof = (di->caps & CAP_BOOL) ? GenConfig::NUMBOOL : GenConfig::NUM;
  if (di->caps & CAP_ARRAY)
    prof = GenConfig::ARRAY;
  GenConfig gc = random_gen_config(r, prof, false);
  gc.arr_assign = false; // backward_array_assign is declared "not implemented"
  if (prof == GenConfig::ARRAY && !(di->caps & CAP_BOOL))
    gc.nbools = 0;
  restrict_for_domain(gc, *di);
  gc.no_exit = false; // the analysis needs an exit block
  gc.n_asserts = std::max(gc.n_asserts, 2);
  c.prog = generate_program(r, gc);
  c.params.set("gen", gc.to_json());
  random_fixpo(r, c.params);
  c.params.set("good", r.chance(1, 3) ? 1 : 0);
  static const char *inv[] = {"none", "forward", "forward"};
  c.params.set("invariants", inv[r.below(3)]);
  c.params.set("policy", (long)r.below(3));
  c.params.set("large", gc.large ? 1 : 0);
  c.params.set("huge", gc.huge ? 1 : 0);
  if (c.pbool("good") && r.coin()) {
    // final states F: a box on some integer variables
    Json f = Json::arr();
    const Function &fn = c.prog.funcs[0];
    std::vector<std::string> ints;
    for (auto &v : fn.vars)
      if (v.ty == Ty::INT && v.width == 32)
        ints.push_back(v.name);
    int n = ints.empty() ? 0 : (int)r.range(1, 2);
    for (int i = 0; i < n; i++) {
      LinCst lc;
      lc.kind = LinCst::LEQ;
      long b = (long)r.range(-8, 8);
      if (r.coin()) {
        lc.e = LinExp::var(ints[r.below(ints.size())]);
        lc.e.cst = -b;
      } else {
        lc.e = LinExp::var(ints[r.below(ints.size())], -1);
        lc.e.cst = b;
      }
      f.push(lc.to_json());
    }
    c.params.set("final", f);
  }
  random_knobs(r, c.domain, c.params);
  c.exec_seed = r.next() & 0x3fffffffffffffffULL;
  c.n_execs = t.execs;
  return c;
}

Outcome check_c11(const Case &c, Stats &st) {
  Outcome out;
  apply_knobs(c);
  const DomainInfo *di = find_domain(c.domain);
  if (!di) {
    out.refusal = "unknown domain";
    return out;
  }
  bool good = c.pbool("good");
  bool use_fwd = c.pstr("invariants", "none") == "forward";
  std::unique_ptr<CrabProgram> cp;
  std::unique_ptr<dom_t> top;
  std::unique_ptr<IntraFwd> fwd;
  std::unique_ptr<Backward> bwd;
  std::vector<LinCst> final_csts;
  if (c.params.has("final"))
    for (auto &j : c.params.at("final").a)
      final_csts.push_back(LinCst::from_json(j));
  GuardResult gr = guarded(tick_budget_for(c.prog), [&]() {
    cp = build_program(c.prog);
    CrabFunction &fn = cp->funcs[0];
    if (!fn.cfg->has_exit())
      throw FatalError("no exit block");
    top.reset(di->make_dom());
    AssumptionMap invs;
    if (use_fwd) {
      fwd = IntraFwd::create(fn, *top, fixpo_of(c), false);
      AssumptionMap none;
      fwd->run(fn.cfg->entry(), top->make_top(), none);
      for (auto &b : fn.src->blocks)
        invs[b.label] = std::shared_ptr<dom_t>(new dom_t(unwrap_dom(*fwd->pre(b.label))));
    }
    bwd = Backward::create(fn, *top, good, fixpo_of(c));
    dom_t post = good ? top->make_top() : top->make_bottom();
    if (good && !final_csts.empty()) {
      lin_cst_sys_t sys;
      for (auto &lc : final_csts)
        sys += to_lin_cst(lc, fn.vars);
      post += sys;
    }
    bwd->run(post, use_fwd ? &invs : nullptr);
  });
  st.inc("analysis_ticks", gr.ticks);
  if (!gr.ok) {
    if (gr.budget)
      out.budget = true;
    out.refusal = gr.msg;
    st.inc("refused");
    return out;
  }
  st.inc("analyses");
  st.inc(good ? "mode_good" : "mode_error");
  st.inc(use_fwd ? "with_forward_invariants" : "without_invariants");
  CrabFunction &fn = cp->funcs[0];
  std::vector<mpz_class> pool;
  harvest_constants(c.prog, pool);
  std::map<std::string, AbsVal::P> pre, finv;
  GammaOpts full;
  uint64_t h = 11;
  GuardResult mg = guarded(-1, [&]() {
    for (int e = 0; e < c.n_execs && !out.violated; e++) {
      RandomScheduler sched(mix64(c.exec_seed + (uint64_t)e));
      configure_scheduler(sched, c, *di, pool);
      MachineConfig mc = machine_config_for(c, *di);
      HistoryMonitor mon(fn);
      Machine m(*cp, sched, &mon, mc);
      EndReason er = m.run(fn, Store());
      account_run(st, m, er);
      h = hash_combine(h, m.history_hash());
      bool relevant = false;
      if (!good && er == EndReason::FAILED_ASSERT)
        relevant = true;
      if (good && er == EndReason::EXIT) {
        relevant = true;
        Frame f;
        f.fn = &fn;
        f.st = m.final_store;
        for (auto &lc : final_csts)
          if (m.eval_lin_cst(f, to_lin_cst(lc, fn.vars)) != 1)
            relevant = false;
      }
      if (!relevant)
        continue;
      st.inc("relevant_executions");
      // only executions consistent with the supplied forward invariants
      if (use_fwd) {
        bool consistent = true;
        for (auto &hs : mon.hist) {
          auto it = finv.find(hs.first);
          if (it == finv.end())
            it = finv.insert({hs.first, fwd->pre(hs.first)}).first;
          GammaOpts cheap;
          cheap.probes = false;
          cheap.point_meet = false;
          cheap.use_index = false;
          if (!in_gamma(*it->second, hs.second, cheap).ok) {
            consistent = false;
            break;
          }
        }
        if (!consistent) {
          st.inc("executions_inconsistent_with_forward_invariants");
          continue;
        }
      }
      for (auto &hs : mon.hist) {
        auto it = pre.find(hs.first);
        if (it == pre.end())
          it = pre.insert({hs.first, bwd->pre(hs.first)}).first;
        GammaResult g = in_gamma(*it->second, hs.second, full);
        st.inc("gamma_checks");
        if (!g.ok) {
          out.violated = true;
          out.v.property = "C11";
          out.v.monitor = good ? "good_precondition" : "error_precondition";
          out.v.item = g.item;
          out.v.where = fn.src->name + ":" + hs.first;
          out.v.detail =
              std::string(good ? "an execution that reaches the exit in a good final state"
                               : "an execution that goes on to violate an assertion") +
              " passes through " + hs.first + " in a state outside the precondition: " +
              g.detail + " ; precondition=" + it->second->str();
          out.trace = trace_of(m);
          break;
        }
      }
    }
  });
  if (!mg.ok && !out.violated) {
    out.refusal = "query failed: " + mg.msg;
    st.inc("refused_in_monitor");
  }
  for (auto &kv : pre)
    h = hash_combine(h, hash_str(kv.first + "=" + kv.second->str()));
  st.result_hashes.push_back(h);
  out.hash = h;
  return out;
}

std::vector<std::string> bwd_domains(const Tier &t) {
  // the property quantifies over the domains that implement backward operations;
  // constants, signs, powerset, packing, ... declare them "not implemented"
  // array_adaptive implements backward array operations only partially; the engine can
  // run it on the ARRAY profile (`--domains aa_intervals`, that is how KF48 was found and
  // its reproducer replays) but the array domains are not part of the registered check:
  // see DESIGN.md section 10.
  return domains_with(CAP_BACKWARD, CAP_ARRAY | CAP_REGION | CAP_BV, !t.thorough);
}
PropertyRegistrar reg_c11({"C11", "sim_prog", gen_c11, check_c11, bwd_domains});

} // namespace
} // namespace sim
