// Real crab intra-procedural analysers, instantiated once with dom_t.
#include "analyses.hpp"
#include <crab/analysis/bwd_analyzer.hpp>
#include <crab/analysis/dataflow/liveness.hpp>
#include <crab/analysis/fwd_analyzer.hpp>
#include <crab/checkers/assertion.hpp>
#include <crab/checkers/base_property.hpp>
#include <crab/checkers/checker.hpp>

namespace sim {
using namespace crab::analyzer;
using namespace crab::checker;

static crab::fixpoint_parameters to_fp(const FixpoCfg &c) {
  crab::fixpoint_parameters p;
  p.get_widening_delay() = c.delay;
  p.get_descending_iterations() = c.descending;
  p.get_max_thresholds() = c.thresholds;
  return p;
}

CheckResult convert_checks(const checks_db &db) {
  CheckResult r;
  for (auto const &kv : db.get_all_checks()) {
    auto &v = r.by_id[kv.first.get_id()];
    for (auto k : kv.second) {
      switch (k) {
      case check_kind::CRAB_SAFE:
        v.push_back(Verdict::SAFE);
        r.safe++;
        break;
      case check_kind::CRAB_ERR:
        v.push_back(Verdict::ERR);
        r.err++;
        break;
      case check_kind::CRAB_WARN:
        v.push_back(Verdict::WARN);
        r.warn++;
        break;
      case check_kind::CRAB_UNREACH:
        v.push_back(Verdict::UNREACH);
        r.unreach++;
        break;
      }
    }
  }
  return r;
}

template <class Analyzer> static CheckResult run_checker(Analyzer &a) {
  using checker_t = intra_checker<Analyzer>;
  using assert_checker_t = assert_property_checker<Analyzer>;
  typename checker_t::prop_checker_ptr prop(new assert_checker_t(0));
  checker_t checker(a, {prop});
  checker.run();
  return convert_checks(checker.get_all_checks());
}

template <class Map> static Map to_crab_assumptions(const AssumptionMap &a) {
  Map m;
  for (auto &kv : a)
    m.insert({kv.first, *kv.second});
  return m;
}

namespace {

using fwd_t = intra_fwd_analyzer<cfg_ref_t, dom_t>;
using live_t = live_and_dead_analysis<cfg_ref_t>;

struct IntraFwdImpl : IntraFwd {
  CrabFunction &fn;
  // the fixpoint iterator keeps a REFERENCE to its parameters: they must outlive it
  crab::fixpoint_parameters fpp;
  std::unique_ptr<live_t> live;
  std::unique_ptr<fwd_t> an;
  IntraFwdImpl(CrabFunction &f, const dom_t &top, FixpoCfg fp, bool liveness)
      : fn(f), fpp(to_fp(fp)) {
    cfg_ref_t ref(*fn.cfg);
    if (liveness) {
      live.reset(new live_t(ref));
      live->exec();
    }
    an.reset(new fwd_t(ref, top, live.get(), fpp));
  }
  void run(const std::string &entry, const dom_t &init, const AssumptionMap &assume) override {
    auto m = to_crab_assumptions<typename fwd_t::assumption_map_t>(assume);
    an->run(entry, init, m);
  }
  AbsVal::P pre(const std::string &l) override { return wrap_dom(an->get_pre(l)); }
  AbsVal::P post(const std::string &l) override { return wrap_dom(an->get_post(l)); }
  CheckResult check() override { return run_checker(*an); }
  AbsVal::P before_stmt(const std::string &label, int idx) override {
    auto &tr = an->get_abs_transformer();
    tr.set_abs_value(an->get_pre(label));
    int k = 0;
    for (auto &s : fn.cfg->get_node(label)) {
      if (k++ == idx)
        break;
      s.accept(&tr);
    }
    return wrap_dom(tr.get_abs_value());
  }
  std::string wto_str() override {
    crab::crab_string_os os;
    os << an->get_wto();
    return os.str();
  }
  unsigned max_cycle_visits() override {
    struct V : public ikos::wto_component_visitor<cfg_ref_t> {
      unsigned mx = 0;
      void visit(ikos::wto_vertex<cfg_ref_t> &) override {}
      void visit(ikos::wto_cycle<cfg_ref_t> &c) override {
        mx = std::max(mx, (unsigned)c.get_fixpo_visits());
        for (auto it = c.begin(); it != c.end(); ++it)
          it->accept(this);
      }
    } v;
    an->get_wto().accept(&v);
    return v.mx;
  }
};

using fb_t = intra_forward_backward_analyzer<cfg_ref_t, dom_t>;

struct FwdBwdImpl : FwdBwd {
  CrabFunction &fn;
  crab::fixpoint_parameters fpp;
  std::unique_ptr<live_t> live;
  std::unique_ptr<fb_t> an;
  FwdBwdImpl(CrabFunction &f, const dom_t &top) : fn(f) {
    cfg_ref_t ref(*fn.cfg);
    an.reset(new fb_t(ref, top));
  }
  void run(const std::string &entry, const dom_t &init, const AssumptionMap &assume, bool liveness,
           FixpoCfg fp, bool backward, unsigned max_refine, bool use_refined) override {
    cfg_ref_t ref(*fn.cfg);
    if (liveness) {
      live.reset(new live_t(ref));
      live->exec();
    }
    fwd_bwd_parameters p;
    p.enable_backward() = backward;
    p.get_max_refine_iterations() = max_refine;
    p.get_use_refined_invariants() = use_refined;
    auto m = to_crab_assumptions<typename fb_t::assumption_map_t>(assume);
    fpp = to_fp(fp);
    an->run(entry, init, m, live.get(), fpp, p);
  }
  AbsVal::P pre(const std::string &l) override { return wrap_dom(an->get_pre(l)); }
  AbsVal::P post(const std::string &l) override { return wrap_dom(an->get_post(l)); }
  CheckResult check() override { return run_checker(*an); }
};

using bwd_t = necessary_preconditions_fixpoint_iterator<cfg_ref_t, dom_t>;

struct BackwardImpl : Backward {
  CrabFunction &fn;
  crab::fixpoint_parameters fpp;
  std::unique_ptr<bwd_t> an;
  BackwardImpl(CrabFunction &f, const dom_t &top, bool good, FixpoCfg fp)
      : fn(f), fpp(to_fp(fp)) {
    cfg_ref_t ref(*fn.cfg);
    an.reset(new bwd_t(ref, top, good, fpp));
  }
  void run(const dom_t &postcond, const AssumptionMap *inv) override {
    if (inv) {
      std::unordered_map<label_t, dom_t> m;
      for (auto &kv : *inv)
        m.insert({kv.first, *kv.second});
      an->run_backward(postcond, m);
    } else
      an->run_backward(postcond);
  }
  AbsVal::P pre(const std::string &l) override { return wrap_dom((*an)[l]); }
};

} // namespace

std::unique_ptr<IntraFwd> IntraFwd::create(CrabFunction &fn, const dom_t &top, FixpoCfg fp,
                                           bool liveness) {
  return std::unique_ptr<IntraFwd>(new IntraFwdImpl(fn, top, fp, liveness));
}
std::unique_ptr<FwdBwd> FwdBwd::create(CrabFunction &fn, const dom_t &top) {
  return std::unique_ptr<FwdBwd>(new FwdBwdImpl(fn, top));
}
std::unique_ptr<Backward> Backward::create(CrabFunction &fn, const dom_t &top, bool good,
                                           FixpoCfg fp) {
  return std::unique_ptr<Backward>(new BackwardImpl(fn, top, good, fp));
}

} // namespace sim
