// Definitions behind the guarded hooks in /repo (H1 fatal errors, H2 tick
// clock, H3 unusual-outcome fault point) and the guard that runs a piece of
// real crab code under them.
#pragma once
#include <cstdint>
#include <exception>
#include <functional>
#include <string>

namespace sim {

struct FatalError : std::exception {
  std::string msg;
  explicit FatalError(const std::string &m) : msg(m) {}
  const char *what() const noexcept override { return msg.c_str(); }
};
struct TickBudgetExceeded : std::exception {
  const char *what() const noexcept override { return "tick budget exceeded"; }
};

struct HookState {
  long ticks = 0;        // simulated time of the analyser (H2)
  long tick_budget = -1; // < 0: unlimited
  // H3
  bool unusual_enabled = false;
  uint64_t unusual_seed = 0;
  unsigned unusual_per_mille = 0;
  long unusual_seen = 0;
  long unusual_fired = 0;
  long fatal_errors = 0;
  bool td_check_delayed_now = false; // neutraliser of KF52 (site td_check_delayed_now)
  long refused_queries = 0; // queries crab refused inside in_gamma (reset per case by apply_knobs)
  long tag_checks = 0;      // get_tags answers compared with the tags of a concrete cell (per case)
};
HookState &hooks();

struct GuardResult {
  bool ok = true;
  bool fatal = false;    // crab refused (CRAB_ERROR)
  bool budget = false;   // tick budget exceeded
  bool other = false;    // another exception
  std::string msg;
  long ticks = 0;
};
// run f with a fresh tick counter and the given budget
GuardResult guarded(long tick_budget, const std::function<void()> &f);

} // namespace sim
