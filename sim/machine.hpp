// The CrabIR abstract machine: a small-step concrete interpreter over crab's
// own CFG objects. This is the reference model (the only stub): every
// source of non-determinism of a CrabIR execution (goto choices, havoc,
// initial values, outputs of unanalysed calls) is resolved by a Scheduler
// that draws from the run's seeded PRNG, so one seed is one execution.
#pragma once
#include "build.hpp"
#include <functional>
#include <set>

namespace sim {

struct ArrData {
  bool inited = false;
  mpz_class lb, ub; // valid byte-offset range [lb,ub]
  long esz = 0;     // uniform element size
  std::map<mpz_class, mpz_class> cells; // offset -> value (bools as 0/1)
};

struct RgnData {
  // each region variable is its own memory: address -> value
  struct Cell {
    mpz_class i; // int / bool(0,1) / ref address
    int obj = 0; // for references
    // tag analysis of the region domain (intrinsic add_tag): tags attached to the
    // data in this cell. Tracked for copies only (store of a variable, load), which
    // under-approximates any taint semantics: fewer obligations, never more.
    std::shared_ptr<const std::set<int>> tags;
  };
  std::map<mpz_class, Cell> cells;
};

struct Value {
  enum K : uint8_t { UNDEF, INT, BOOL, REF, ARR, RGN } k = UNDEF;
  mpz_class i; // INT value, or REF address (0 = null)
  bool b = false;
  int obj = 0; // REF: object id (0 = null)
  std::shared_ptr<ArrData> arr;
  std::shared_ptr<RgnData> rgn;
  std::shared_ptr<const std::set<int>> tags; // see RgnData::Cell::tags
  static Value mk_int(const mpz_class &v) {
    Value x;
    x.k = INT;
    x.i = v;
    return x;
  }
  static Value mk_bool(bool v) {
    Value x;
    x.k = BOOL;
    x.b = v;
    return x;
  }
  bool same(const Value &o) const {
    if (k != o.k)
      return false;
    switch (k) {
    case INT:
      return i == o.i;
    case BOOL:
      return b == o.b;
    case REF:
      return i == o.i && obj == o.obj;
    case ARR:
      if (!arr || !o.arr)
        return arr == o.arr;
      return arr->inited == o.arr->inited && arr->lb == o.arr->lb && arr->ub == o.arr->ub &&
             arr->esz == o.arr->esz && arr->cells == o.arr->cells;
    case RGN: {
      if (!rgn || !o.rgn)
        return rgn == o.rgn;
      if (rgn->cells.size() != o.rgn->cells.size())
        return false;
      auto a = rgn->cells.begin(), b2 = o.rgn->cells.begin();
      for (; a != rgn->cells.end(); ++a, ++b2)
        if (a->first != b2->first || a->second.i != b2->second.i || a->second.obj != b2->second.obj)
          return false;
      return true;
    }
    default:
      return true;
    }
  }
  std::string str() const;
};

// concrete store of one activation: keyed by crab's variable index
struct Store {
  std::map<ikos::index_t, Value> m;
  const Value *get(const var_t &v) const {
    auto it = m.find(v.index());
    return it == m.end() ? nullptr : &it->second;
  }
  void set(const var_t &v, const Value &x) { m[v.index()] = x; }
};

// heap objects created by make_ref
struct HeapObj {
  mpz_class base, size;
  int site = 0;
  bool freed = false;
};

enum class EndReason {
  EXIT,        // completed the exit block
  FAILED_ASSERT,
  BLOCKED,     // no enabled successor / false assume / unreachable / division by zero
  OUTSIDE,     // an operation outside the reference semantics
  STEP_CAP,
  DEPTH_CAP,
  NO_EXIT,     // reached a block without successors that is not the exit
  ABORT        // a monitor asked to stop
};
const char *end_reason_name(EndReason r);

// event history of one execution (also the input of the determinism hash)
struct Event {
  enum K : uint8_t { BLOCK, COND, ASSERT, HAVOC, CALL, RET, END, FAULT, SELECT } k;
  std::string a; // block label / callee / reason
  int64_t id = 0;  // assertion id / havoc tag / stmt ordinal
  bool outcome = false;
  std::string val; // value drawn, for havoc
  std::string str() const;
};

struct Frame {
  CrabFunction *fn = nullptr;
  Store st;
  int depth = 0;
};

class Machine;

// Every nondeterministic choice goes through here.
struct Scheduler {
  virtual ~Scheduler() {}
  // choose among successor labels; `enabled[i]` tells whether the leading
  // assume prefix of succs[i] holds in the current state. Return index or -1
  // to stop (blocked).
  virtual int choose_succ(Machine &m, const Frame &f, const std::string &block,
                          const std::vector<std::string> &succs,
                          const std::vector<bool> &enabled) = 0;
  virtual mpz_class draw_int(Machine &m, const std::string &key, int width) = 0;
  virtual bool draw_bool(Machine &m, const std::string &key) = 0;
};

// Hooks for the per-property monitors. Returning false aborts the run.
struct Monitor {
  virtual ~Monitor() {}
  virtual bool on_block_entry(Machine &, Frame &, const std::string & /*label*/) { return true; }
  virtual bool on_block_exit(Machine &, Frame &, const std::string & /*label*/) { return true; }
  virtual bool on_stmt(Machine &, Frame &, const std::string & /*label*/, int /*idx*/, stmt_t &,
                       bool /*before*/) {
    return true;
  }
  // an assertion is evaluated (holds = concrete truth value)
  virtual bool on_assert(Machine &, Frame &, const std::string & /*label*/, stmt_t &, int64_t /*id*/,
                         bool /*holds*/) {
    return true;
  }
  virtual bool on_call(Machine &, Frame & /*caller*/, Frame & /*callee*/, stmt_t &) { return true; }
  virtual bool on_return(Machine &, Frame & /*caller*/, Frame & /*callee*/, const Store & /*callee_entry*/,
                         stmt_t &) {
    return true;
  }
};

struct MachineConfig {
  long max_steps = 2000;
  int max_depth = 6;
  bool inter = false;       // follow callsites into callee CFGs (else havoc outputs)
  bool record_events = true;
  long magnitude_bits = 120; // beyond: outside the model
  bool remake_outside = false; // KF47 neutraliser (see machine.cpp, make_ref)
  // BV profile (DESIGN.md 4.5): integers are two's-complement values modulo
  // 2^width, stored as their signed representative
  bool bv = false;
  bool bv_strict = false; // KF61 neutraliser: judge a constraint only if no sub-sum can wrap
};

// signed representative of v modulo 2^w
mpz_class bv_wrap(const mpz_class &v, unsigned w);
// unsigned representative of v modulo 2^w
mpz_class bv_unsigned(const mpz_class &v, unsigned w);

class Machine {
public:
  CrabProgram &prog;
  Scheduler &sched;
  Monitor *mon;
  MachineConfig cfg;

  std::vector<Event> events;
  std::vector<HeapObj> heap; // index = object id (0 unused)
  std::map<ikos::index_t, int> made_by; // reference variable -> object of its last make_ref
  long steps = 0;
  EndReason end = EndReason::EXIT;
  std::string outside_why;
  std::map<std::string, int> occ; // occurrence counters for keyed draws
  // functions of the active frames, outermost first (maintained by run / call)
  std::vector<const CrabFunction *> call_stack;
  // true iff some function has more than one active frame (a recursive re-entry
  // is on the stack): the only situation in which known finding KF28 can show
  bool stack_has_recursion() const {
    for (size_t i = 0; i < call_stack.size(); i++)
      for (size_t j = i + 1; j < call_stack.size(); j++)
        if (call_stack[i] == call_stack[j])
          return true;
    return false;
  }
  // fault injection: called at every block end (after the last statement)
  std::function<void(Machine &, Frame &, const std::string &)> at_block_end;
  std::function<void(Machine &, Frame &, const std::string &)> at_block_begin;

  Machine(CrabProgram &p, Scheduler &s, Monitor *m, const MachineConfig &c)
      : prog(p), sched(s), mon(m), cfg(c) {
    heap.resize(1);
  }

  // Run function fn from its entry block (or from `start`), with the
  // initial store `init` (variables absent from init are drawn on demand at
  // entry). Returns the end reason; the final store of the outermost frame
  // is left in `final_store`.
  EndReason run(CrabFunction &fn, const Store &init, const std::string &start = "");
  Store final_store;
  std::string final_block;

  // helpers used by schedulers / monitors
  bool eval_lin_exp(const Frame &f, const lin_exp_t &e, mpz_class &out);
  // returns 1 true, 0 false, -1 cannot evaluate (outside)
  int eval_lin_cst(const Frame &f, const lin_cst_t &c);
  int eval_ref_cst(const Frame &f, const ref_cst_t &c);
  bool prefix_enabled(const Frame &f, const std::string &label);
  std::string next_key(const std::string &base);
  uint64_t history_hash() const;
  void outside(const std::string &why) {
    if (end != EndReason::OUTSIDE) {
      end = EndReason::OUTSIDE;
      outside_why = why;
    }
    stop = true;
  }
  void block_here() {
    end = EndReason::BLOCKED;
    stop = true;
  }
  bool stop = false;

  // initialise every scalar variable of fn that has no value yet
  void init_scalars(Frame &f);
  EndReason run_frame(Frame &f, const std::string &start);
  void log(Event::K k, const std::string &a, int64_t id = 0, bool outcome = false,
           const std::string &val = "") {
    if (!cfg.record_events)
      return;
    Event e;
    e.k = k;
    e.a = a;
    e.id = id;
    e.outcome = outcome;
    e.val = val;
    events.push_back(e);
  }
};

// A scheduler with the policies of DESIGN.md 3.3.
struct RandomScheduler : Scheduler {
  Rng rng;
  uint64_t key_seed;
  enum Policy { UNIFORM, ENABLED_FIRST, LOOP_BUDGET } policy = ENABLED_FIRST;
  std::vector<mpz_class> pool; // constants harvested from the program
  bool large = false;          // allow large magnitudes
  bool huge = false;           // allow > 64 bit
  bool bv = false;             // BV profile: values near the signed/unsigned poles of the width
  int loop_budget = 6;
  std::map<std::string, int> visits;
  RandomScheduler(uint64_t seed) : rng(seed), key_seed(mix64(seed ^ 0x5151)) {}
  int choose_succ(Machine &m, const Frame &f, const std::string &block,
                  const std::vector<std::string> &succs,
                  const std::vector<bool> &enabled) override;
  mpz_class draw_int(Machine &m, const std::string &key, int width) override;
  bool draw_bool(Machine &m, const std::string &key) override;
  mpz_class value_from(uint64_t r);
};

// Follows a recorded sequence of block labels (decision trace); draws are
// keyed exactly like RandomScheduler with the same seed, so two machines
// driven with the same seed see the same values at the same keys.
struct TraceScheduler : RandomScheduler {
  std::vector<std::string> path; // block labels of the outermost frame, in order
  size_t pos = 0;
  bool diverged = false;
  TraceScheduler(uint64_t seed) : RandomScheduler(seed) {}
  int choose_succ(Machine &m, const Frame &f, const std::string &block,
                  const std::vector<std::string> &succs,
                  const std::vector<bool> &enabled) override;
};

void harvest_constants(const Program &p, std::vector<mpz_class> &pool);

} // namespace sim
