// SimIR -> real crab CFGs (through crab's public builder API).
#pragma once
#include "crabdefs.hpp"
#include "simir.hpp"
#include <map>
#include <memory>

namespace sim {
using namespace simc;

inline number_t to_num(const mpz_class &z) { return number_t(z.get_str()); }
inline mpz_class to_mpz(const number_t &n) {
  number_t c(n);
  return mpz_class(c.get_mpz_t());
}

struct CrabFunction {
  const Function *src = nullptr;
  std::unique_ptr<cfg_t> cfg;
  std::map<std::string, var_t> vars;
};

// One built program. Owns the variable factory: a fresh one per run, so
// that variable indices (which shape patricia trees and constraint orders
// inside crab) never depend on earlier runs.
struct CrabProgram {
  std::unique_ptr<variable_factory_t> vfac;
  std::vector<CrabFunction> funcs;
  Program src;

  CrabFunction *func(const std::string &name) {
    for (auto &f : funcs)
      if (f.src->name == name)
        return &f;
    return nullptr;
  }
};

var_t make_var(variable_factory_t &vfac, const VarDecl &d);
lin_exp_t to_lin_exp(const LinExp &e, const std::map<std::string, var_t> &vars);
lin_cst_t to_lin_cst(const LinCst &c, const std::map<std::string, var_t> &vars);
ref_cst_t to_ref_cst(const std::string &kind, const std::vector<std::string> &v, size_t from,
                     const mpz_class &off, const std::map<std::string, var_t> &vars);

// Build all functions of a program. Throws crab's fatal error (hook H1) if
// crab refuses the program.
std::unique_ptr<CrabProgram> build_program(const Program &p);

} // namespace sim
