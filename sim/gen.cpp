#include "gen.hpp"
#include <algorithm>

namespace sim {

Json GenConfig::to_json() const {
  Json j = Json::obj();
  static const char *pn[] = {"num", "numbool", "array", "region"};
  j.set("profile", pn[profile]);
  j.set("inter", inter);
  j.set("recursion", recursion);
  j.set("max_blocks", max_blocks);
  j.set("max_stmts", max_stmts);
  j.set("nvars", nvars);
  j.set("large", large);
  j.set("huge", huge);
  if (bv_width)
    j.set("bv_width", bv_width);
  std::string feats;
  auto add = [&](bool b, const char *n) {
    if (b)
      feats += std::string(n) + " ";
  };
  add(mul, "mul");
  add(divs, "div");
  add(bitwise, "bitwise");
  add(shifts, "shift");
  add(casts, "cast");
  add(select, "select");
  add(nonunit, "nonunit");
  add(mid_assume, "mid_assume");
  add(unreach_stmt, "unreach");
  add(havoc, "havoc");
  add(loops, "loops");
  add(irreducible, "irreducible");
  add(self_loops, "self_loops");
  add(dead_ends, "dead_ends");
  add(unreachable_blocks, "unreachable_blocks");
  add(no_exit, "no_exit");
  add(entry_loop, "entry_loop");
  add(guards, "guards");
  add(func_decl, "func_decl");
  add(templates, "templates");
  add(partition, "partition");
  j.set("features", feats);
  return j;
}

GenConfig random_gen_config(Rng &r, GenConfig::Profile profile, bool inter) {
  GenConfig c;
  c.profile = profile;
  c.inter = inter;
  c.recursion = inter && r.chance(1, 3);
  c.max_funcs = (int)r.range(2, 4);
  c.max_blocks = (int)r.range(1, inter ? 6 : 12);
  c.max_stmts = (int)r.range(0, 6);
  c.nvars = (int)r.range(1, 6);
  c.nbools = (profile == GenConfig::NUM) ? 0 : (int)r.range(1, 3);
  c.n_asserts = (int)r.range(0, 6);
  auto sw = [&](unsigned num, unsigned den) { return r.chance(num, den); };
  c.mul = sw(2, 3);
  c.divs = sw(1, 2);
  c.bitwise = sw(1, 3);
  c.shifts = sw(1, 3);
  c.casts = sw(1, 3);
  c.select = sw(1, 2);
  c.nonunit = sw(2, 3);
  c.large = sw(1, 5);
  c.huge = c.large && sw(1, 3);
  c.mid_assume = sw(1, 2);
  c.unreach_stmt = sw(1, 5);
  c.havoc = sw(2, 3);
  c.loops = sw(4, 5);
  c.nested = sw(1, 2);
  c.irreducible = sw(1, 3);
  c.self_loops = sw(1, 3);
  c.dead_ends = sw(1, 3);
  c.unreachable_blocks = sw(1, 5);
  c.no_exit = sw(1, 12);
  c.entry_loop = sw(1, 3);
  c.guards = sw(5, 6);
  c.func_decl = inter || sw(1, 2);
  c.templates = sw(1, 2);
  return c;
}

namespace {

struct FGen {
  Rng &r;
  const GenConfig &c;
  Function f;
  std::vector<std::string> ints_rd, ints_wr, bools_rd, bools_wr;
  std::vector<std::string> wide, narrow; // 64-bit and 8-bit ints for casts
  int next_id;
  int *assert_id;
  int *havoc_id;
  const std::vector<Function> *callees = nullptr; // candidate callees
  std::vector<int> callee_idx;
  // ARRAY profile: arrays with a uniform element size and a fixed valid range
  struct ArrInfo {
    std::string name;
    long esz, n;
    bool is_bool;
  };
  std::vector<ArrInfo> arrays;
  // REGION profile: every reference variable has a fixed home region
  struct RgnInfo {
    std::string name;
    Ty ty; // RGN_INT / RGN_BOOL / RGN_REF
  };
  struct RefInfo {
    std::string name;
    int home; // index in regions
  };
  std::vector<RgnInfo> regions;
  std::vector<RefInfo> refs;
  int *site_id = nullptr;
  int local_site = 0;

  FGen(Rng &rr, const GenConfig &cc, int *aid, int *hid) : r(rr), c(cc), next_id(0), assert_id(aid), havoc_id(hid) {}

  mpz_class constant() {
    if (c.bv_width && r.chance(1, 4)) {
      // BV profile: constants at the poles of the width
      mpz_class half;
      mpz_ui_pow_ui(half.get_mpz_t(), 2, (unsigned)c.bv_width - 1);
      long d = (long)r.range(0, 2);
      switch (r.below(5)) {
      case 0:
        return half - 1 - d;
      case 1:
        return -half + d;
      case 2:
        return half / 2 + d;
      case 3:
        return 2 * half - 1 - d; // unsigned max (fits the width as an unsigned number)
      default:
        return -(half / 2) - d;
      }
    }
    unsigned k = (unsigned)r.below(100);
    if (k < 55)
      return mpz_class((long)r.range(-5, 5));
    if (k < 80) {
      static const long mids[] = {7, 8, 10, 16, 31, 32, 64, 100, 255, 256, 1000};
      long v = mids[r.below(sizeof(mids) / sizeof(mids[0]))];
      return mpz_class(r.coin() ? v : -v);
    }
    if (k < 92 || !c.large)
      return mpz_class((long)r.range(-50, 50));
    mpz_class v;
    unsigned bits = c.huge && r.chance(1, 3) ? 70 : (r.coin() ? 31 : (r.coin() ? 32 : 62));
    mpz_ui_pow_ui(v.get_mpz_t(), 2, bits);
    v += (long)r.range(-1, 1);
    if (r.coin())
      v = -v;
    return v;
  }
  mpz_class coef() {
    if (!c.nonunit)
      return r.coin() ? 1 : -1;
    static const long cs[] = {1, 1, 1, -1, -1, 2, -2, 3, -3, 4, 5, 7, -7, 0};
    return mpz_class(cs[r.below(sizeof(cs) / sizeof(cs[0]))]);
  }
  const std::string &ird() { return ints_rd[r.below(ints_rd.size())]; }
  const std::string &iwr() { return ints_wr[r.below(ints_wr.size())]; }

  LinExp linexp(int maxterms) {
    LinExp e;
    int n = (int)r.range(0, maxterms);
    for (int i = 0; i < n; i++)
      e.add_term(ird(), coef());
    if (e.terms.empty() || r.coin())
      e.cst = constant();
    return e;
  }
  LinCst cond() {
    LinCst k;
    unsigned s = (unsigned)r.below(100);
    k.kind = s < 40 ? LinCst::LEQ : s < 60 ? LinCst::LT : s < 80 ? LinCst::EQ : LinCst::NEQ;
    // forms: x - c, x - y - c, a*x - c, x + y - c
    unsigned form = (unsigned)r.below(100);
    LinExp e;
    if (form < 50) {
      e.add_term(ird(), r.coin() ? 1 : -1);
    } else if (form < 75) {
      e.add_term(ird(), 1);
      e.add_term(ird(), -1);
    } else if (form < 85) {
      e.add_term(ird(), 1);
      e.add_term(ird(), 1);
    } else {
      e.add_term(ird(), coef());
      if (r.coin())
        e.add_term(ird(), coef());
    }
    e.cst = constant();
    k.e = e;
    return k;
  }
  static LinCst negate(const LinCst &k) {
    LinCst n;
    LinExp m;
    for (auto &t : k.e.terms)
      m.terms.push_back({t.first, -t.second});
    m.cst = -k.e.cst;
    switch (k.kind) {
    case LinCst::LEQ: // e<=0  ->  -e<0
      n.kind = LinCst::LT;
      n.e = m;
      break;
    case LinCst::LT: // e<0 -> -e<=0
      n.kind = LinCst::LEQ;
      n.e = m;
      break;
    case LinCst::EQ:
      n.kind = LinCst::NEQ;
      n.e = k.e;
      break;
    case LinCst::NEQ:
      n.kind = LinCst::EQ;
      n.e = k.e;
      break;
    }
    return n;
  }

  Stmt mk(Op op) {
    Stmt s;
    s.op = op;
    return s;
  }

  Stmt gen_assert() {
    bool usebool = !bools_rd.empty() && r.chance(1, 4);
    if (usebool) {
      Stmt s = mk(Op::BASSERT);
      s.v = {bools_rd[r.below(bools_rd.size())]};
      s.id = (*assert_id)++;
      return s;
    }
    Stmt s = mk(Op::ASSERT);
    s.c = cond();
    s.id = (*assert_id)++;
    return s;
  }

  // a random non-control statement
  bool gen_stmt(Stmt &out) {
    if (c.partition && r.chance(1, 6)) {
      // partitioning directive: no concrete effect, changes the representation
      Stmt s = mk(Op::INTRINSIC);
      s.k = r.chance(3, 4) ? "value_partition_start" : "value_partition_end";
      s.v = {ird()};
      out = s;
      return true;
    }
    for (int tries = 0; tries < 20; tries++) {
      unsigned k = (unsigned)r.below(100);
      if (k < 22) { // assign
        Stmt s = mk(Op::ASSIGN);
        s.v = {iwr()};
        s.e = {linexp(3)};
        out = s;
        return true;
      }
      if (k < 40) { // add/sub
        Stmt s = mk(Op::BINOP);
        s.k = r.coin() ? "add" : "sub";
        s.v = {iwr(), ird()};
        if (r.coin())
          s.v.push_back(ird());
        else
          s.n = {constant()};
        out = s;
        return true;
      }
      if (k < 47) {
        if (!c.mul)
          continue;
        Stmt s = mk(Op::BINOP);
        s.k = "mul";
        s.v = {iwr(), ird()};
        if (r.chance(1, 3))
          s.v.push_back(ird());
        else
          s.n = {mpz_class((long)r.range(-4, 4))};
        out = s;
        return true;
      }
      if (k < 54) {
        if (!c.divs)
          continue;
        static const char *ops[] = {"sdiv", "srem", "udiv", "urem", "sdiv", "srem"};
        Stmt s = mk(Op::BINOP);
        s.k = ops[r.below(6)];
        s.v = {iwr(), ird()};
        if (r.chance(1, 3))
          s.v.push_back(ird());
        else {
          mpz_class d = constant();
          if (d == 0 && r.chance(3, 4))
            d = 2;
          s.n = {d};
        }
        out = s;
        return true;
      }
      if (k < 59) {
        if (!c.bitwise)
          continue;
        static const char *ops[] = {"and", "or", "xor"};
        Stmt s = mk(Op::BINOP);
        s.k = ops[r.below(3)];
        s.v = {iwr(), ird()};
        if (r.coin())
          s.v.push_back(ird());
        else
          s.n = {constant()};
        out = s;
        return true;
      }
      if (k < 63) {
        if (!c.shifts)
          continue;
        static const char *ops[] = {"shl", "lshr", "ashr"};
        Stmt s = mk(Op::BINOP);
        s.k = ops[r.below(3)];
        s.v = {iwr(), ird()};
        s.n = {mpz_class((long)r.range(0, 5))};
        out = s;
        return true;
      }
      if (k < 70) {
        if (!c.havoc)
          continue;
        Stmt s = mk(Op::HAVOC);
        if (!bools_wr.empty() && r.chance(1, 4))
          s.v = {bools_wr[r.below(bools_wr.size())]};
        else
          s.v = {iwr()};
        s.id = (*havoc_id)++;
        out = s;
        return true;
      }
      if (k < 76) {
        if (!c.select)
          continue;
        Stmt s = mk(Op::SELECT);
        s.v = {iwr()};
        s.c = cond();
        s.e = {linexp(2), linexp(2)};
        out = s;
        return true;
      }
      if (k < 81) {
        if (!c.mid_assume)
          continue;
        Stmt s = mk(Op::ASSUME);
        s.c = cond();
        out = s;
        return true;
      }
      if (k < 84) {
        if (!c.casts || (wide.empty() && narrow.empty()))
          continue;
        // widths: narrow(8) < int(32) < wide(64)
        Stmt s = mk(Op::CAST);
        unsigned w = (unsigned)r.below(4);
        if (w == 0 && !wide.empty()) {
          s.k = r.coin() ? "sext" : "zext";
          s.v = {wide[0], ird()};
        } else if (w == 1 && !wide.empty()) {
          s.k = "trunc";
          s.v = {iwr(), wide[0]};
        } else if (w == 2 && !narrow.empty()) {
          s.k = r.coin() ? "sext" : "zext";
          s.v = {iwr(), narrow[0]};
        } else if (!narrow.empty()) {
          s.k = "trunc";
          s.v = {narrow[0], ird()};
        } else
          continue;
        out = s;
        return true;
      }
      if (k < 86) {
        if (!c.unreach_stmt || !r.chance(1, 4))
          continue;
        out = mk(Op::UNREACH);
        return true;
      }
      // boolean statements
      if (bools_wr.empty())
        continue;
      const std::string &bw = bools_wr[r.below(bools_wr.size())];
      auto brd = [&]() -> const std::string & { return bools_rd[r.below(bools_rd.size())]; };
      if (k < 90) {
        Stmt s = mk(Op::BASSIGN_CST);
        s.v = {bw};
        s.c = cond();
        if (r.chance(1, 8)) { // constant true / false
          s.c.e = LinExp(mpz_class(r.coin() ? 0 : 1));
          s.c.kind = LinCst::EQ;
        }
        out = s;
        return true;
      }
      if (k < 92) {
        Stmt s = mk(Op::BASSIGN_VAR);
        s.v = {bw, brd()};
        s.f = r.coin();
        out = s;
        return true;
      }
      if (k < 95) {
        static const char *ops[] = {"and", "or", "xor"};
        Stmt s = mk(Op::BBINOP);
        s.k = ops[r.below(3)];
        s.v = {bw, brd(), brd()};
        out = s;
        return true;
      }
      if (k < 97) {
        if (!c.mid_assume)
          continue;
        Stmt s = mk(Op::BASSUME);
        s.v = {brd()};
        s.f = r.coin();
        out = s;
        return true;
      }
      if (k < 98) {
        Stmt s = mk(Op::BSELECT);
        s.v = {bw, brd(), brd(), brd()};
        out = s;
        return true;
      }
      if (c.casts) {
        Stmt s = mk(Op::CAST);
        if (r.coin()) {
          s.k = "zext";
          s.v = {iwr(), brd()};
        } else {
          s.k = "trunc";
          s.v = {bw, ird()};
        }
        out = s;
        return true;
      }
    }
    return false;
  }

  bool gen_call(Stmt &out) {
    if (!callees || callee_idx.empty())
      return false;
    const Function &g = (*callees)[callee_idx[r.below(callee_idx.size())]];
    Stmt s = mk(Op::CALL);
    s.k = g.name;
    std::set<std::string> used;
    for (auto &o : g.outputs) {
      const VarDecl *d = g.var(o);
      const std::vector<std::string> &pool = d->ty == Ty::BOOL ? bools_wr : ints_wr;
      std::vector<std::string> cand;
      for (auto &p : pool)
        if (!used.count(p))
          cand.push_back(p);
      if (cand.empty())
        return false;
      std::string pick = cand[r.below(cand.size())];
      used.insert(pick);
      s.v.push_back(pick);
    }
    s.n = {mpz_class((long)g.outputs.size())};
    for (auto &i : g.inputs) {
      const VarDecl *d = g.var(i);
      const std::vector<std::string> &pool = d->ty == Ty::BOOL ? bools_rd : ints_rd;
      if (pool.empty())
        return false;
      s.v.push_back(pool[r.below(pool.size())]);
    }
    out = s;
    return true;
  }

  void declare_vars(const std::string &fname, int n_in_int, int n_in_bool, int n_out_int,
                    int n_out_bool, bool shared_names) {
    std::string pre = shared_names ? "" : fname + "_";
    for (int i = 0; i < c.nvars; i++) {
      VarDecl d;
      d.name = pre + "x" + std::to_string(i);
      if (c.bv_width)
        d.width = c.bv_width;
      f.vars.push_back(d);
      ints_rd.push_back(d.name);
      ints_wr.push_back(d.name);
    }
    for (int i = 0; i < c.nbools; i++) {
      VarDecl d;
      d.name = pre + "bb" + std::to_string(i);
      d.ty = Ty::BOOL;
      d.width = 1;
      f.vars.push_back(d);
      bools_rd.push_back(d.name);
      bools_wr.push_back(d.name);
    }
    if (c.profile == GenConfig::ARRAY && !c.casts) {
      for (int i = 0; i < 2; i++) {
        VarDecl w;
        w.name = pre + "w" + std::to_string(i);
        w.width = 64;
        f.vars.push_back(w);
        wide.push_back(w.name);
        VarDecl n;
        n.name = pre + "n" + std::to_string(i);
        n.width = 8;
        f.vars.push_back(n);
        narrow.push_back(n.name);
      }
    }
    if (c.casts && c.bv_width) {
      if (c.bv_width < 64) {
        VarDecl w;
        w.name = pre + "w0";
        w.width = std::min(64, 2 * c.bv_width);
        f.vars.push_back(w);
        wide.push_back(w.name);
      }
      VarDecl n;
      n.name = pre + "n0";
      n.width = std::max(1, c.bv_width / 2);
      f.vars.push_back(n);
      narrow.push_back(n.name);
    } else if (c.casts) {
      VarDecl w;
      w.name = pre + "w0";
      w.width = 64;
      f.vars.push_back(w);
      wide.push_back(w.name);
      VarDecl n;
      n.name = pre + "n0";
      n.width = 8;
      f.vars.push_back(n);
      narrow.push_back(n.name);
    }
    for (int i = 0; i < n_in_int; i++) {
      VarDecl d;
      d.name = fname + "_p" + std::to_string(i);
      if (c.bv_width)
        d.width = c.bv_width;
      f.vars.push_back(d);
      ints_rd.push_back(d.name);
      f.inputs.push_back(d.name);
    }
    for (int i = 0; i < n_in_bool; i++) {
      VarDecl d;
      d.name = fname + "_q" + std::to_string(i);
      d.ty = Ty::BOOL;
      d.width = 1;
      f.vars.push_back(d);
      bools_rd.push_back(d.name);
      f.inputs.push_back(d.name);
    }
    // outputs are ordinary writable locals
    std::vector<std::string> io = ints_wr, bo = bools_wr;
    for (int i = 0; i < n_out_int && !io.empty(); i++) {
      size_t k = r.below(io.size());
      f.outputs.push_back(io[k]);
      io.erase(io.begin() + k);
    }
    for (int i = 0; i < n_out_bool && !bo.empty(); i++) {
      size_t k = r.below(bo.size());
      f.outputs.push_back(bo[k]);
      bo.erase(bo.begin() + k);
    }
  }

  // ---- ARRAY profile -------------------------------------------------------
  void declare_arrays() {
    int na = (int)r.range(1, 3);
    // the element size is the byte width of the scalars stored in the array
    // (array_adaptive types its cells by size): 4 for the 32-bit variables,
    // 8 / 1 for the 64-bit / 8-bit ones
    auto pick_esz = [&]() -> long {
      unsigned k = (unsigned)r.below(10);
      if (k < 2 && !wide.empty())
        return 8;
      if (k < 4 && !narrow.empty())
        return 1;
      return 4;
    };
    long esz0 = pick_esz(), n0 = (long)r.range(1, 6);
    for (int i = 0; i < na; i++) {
      ArrInfo a;
      a.name = "A" + std::to_string(i);
      // arrays of the same shape are frequent so that array_assign is possible
      bool same = i > 0 && r.chance(2, 3);
      a.esz = same ? esz0 : pick_esz();
      a.n = same ? n0 : (long)r.range(1, 6);
      a.is_bool = !bools_rd.empty() && r.chance(1, 5);
      if (a.is_bool)
        a.esz = 1;
      VarDecl d;
      d.name = a.name;
      d.ty = a.is_bool ? Ty::ARR_BOOL : Ty::ARR_INT;
      d.width = a.is_bool ? 1 : (int)a.esz * 8;
      f.vars.push_back(d);
      arrays.push_back(a);
    }
  }
  // scalars whose width matches the elements of a
  const std::string &elem_rd(const ArrInfo &a) {
    if (a.esz == 8)
      return wide[r.below(wide.size())];
    if (a.esz == 1)
      return narrow[r.below(narrow.size())];
    return ird();
  }
  const std::string &elem_wr(const ArrInfo &a) {
    if (a.esz == 8)
      return wide[r.below(wide.size())];
    if (a.esz == 1)
      return narrow[r.below(narrow.size())];
    return iwr();
  }
  LinExp arr_value(const ArrInfo &a) {
    if (a.is_bool) {
      if (r.coin())
        return LinExp::var(bools_rd[r.below(bools_rd.size())]);
      return LinExp(mpz_class(r.coin() ? 1 : 0));
    }
    if (r.coin())
      return LinExp::var(elem_rd(a));
    if (a.esz == 1)
      return LinExp(mpz_class((long)r.range(0, 100)));
    return LinExp(constant());
  }
  Stmt arr_init(const ArrInfo &a) {
    Stmt s = mk(Op::ARR_INIT);
    s.v = {a.name};
    s.e = {LinExp(mpz_class(0)), LinExp(mpz_class((a.n - 1) * a.esz)), arr_value(a)};
    s.n = {mpz_class(a.esz)};
    return s;
  }
  // an index expression inside the valid range; symbolic ones come with the
  // statements that bound the index variable
  LinExp arr_index(const ArrInfo &a, std::vector<Stmt> &pre) {
    unsigned k = (unsigned)r.below(100);
    if (k < 45 || ints_wr.empty()) {
      long cell = (long)r.range(0, a.n - 1);
      // a cell just beyond the initialised range: a store creates it (crab arrays are
      // unbounded maps), a load is outside the model unless a store came first
      if (r.chance(1, 8))
        cell = a.n + (long)r.below(2);
      return LinExp(mpz_class(cell * a.esz));
    }
    std::string i = iwr();
    if (k < 80) { // i in [lo,hi] by assumption (any previous value)
      if (r.coin()) {
        Stmt h = mk(Op::HAVOC);
        h.v = {i};
        h.id = (*havoc_id)++;
        pre.push_back(h);
      }
      long lo = (long)r.range(0, a.n - 1), hi = (long)r.range(lo, a.n - 1);
      Stmt a1 = mk(Op::ASSUME);
      a1.c.kind = LinCst::LEQ; // lo - i <= 0
      a1.c.e = LinExp::var(i, -1);
      a1.c.e.cst = lo;
      pre.push_back(a1);
      Stmt a2 = mk(Op::ASSUME);
      a2.c.kind = LinCst::LEQ; // i - hi <= 0
      a2.c.e = LinExp::var(i, 1);
      a2.c.e.cst = -hi;
      pre.push_back(a2);
    } else { // i := select(0 <= j <= n-1 ? j : c)
      std::string j = ird();
      Stmt sel = mk(Op::SELECT);
      sel.v = {i};
      sel.c.kind = LinCst::LEQ;
      sel.c.e = LinExp::var(j, 1);
      sel.c.e.cst = -(a.n - 1);
      sel.e = {LinExp::var(j), LinExp(mpz_class((long)r.range(0, a.n - 1)))};
      pre.push_back(sel);
      Stmt a1 = mk(Op::ASSUME);
      a1.c.kind = LinCst::LEQ;
      a1.c.e = LinExp::var(i, -1);
      pre.push_back(a1);
    }
    if (a.esz == 1 && r.coin())
      return LinExp::var(i);
    if (r.coin())
      return LinExp::var(i, mpz_class(a.esz)); // esz*i as an index expression
    // idx := esz*i in a separate variable
    std::string idx = iwr();
    Stmt m = mk(Op::BINOP);
    m.k = "mul";
    m.v = {idx, i};
    m.n = {mpz_class(a.esz)};
    pre.push_back(m);
    return LinExp::var(idx);
  }
  void gen_array_stmts(Block &b) {
    if (arrays.empty())
      return;
    const ArrInfo &a = arrays[r.below(arrays.size())];
    std::vector<Stmt> pre;
    unsigned k = (unsigned)r.below(100);
    Stmt s;
    if (k < 35) { // load
      s = mk(Op::ARR_LOAD);
      std::string lhs;
      if (a.is_bool) {
        if (bools_wr.empty())
          return;
        lhs = bools_wr[r.below(bools_wr.size())];
      } else
        lhs = elem_wr(a);
      LinExp idx = arr_index(a, pre);
      s.v = {lhs, a.name};
      s.e = {idx};
      s.n = {mpz_class(a.esz)};
      for (auto &x : pre)
        b.stmts.push_back(x);
      b.stmts.push_back(s);
      if (!a.is_bool && r.chance(1, 3)) { // an assertion about the loaded value
        Stmt as = mk(Op::ASSERT);
        as.c = cond();
        as.c.e.terms.clear();
        as.c.e.add_term(lhs, r.coin() ? 1 : -1);
        as.id = (*assert_id)++;
        b.stmts.push_back(as);
      }
      return;
    }
    if (k < 70) { // store to one cell
      s = mk(Op::ARR_STORE);
      LinExp idx = arr_index(a, pre);
      s.v = {a.name};
      s.e = {idx, arr_value(a)};
      s.n = {mpz_class(a.esz)};
      s.f = (a.n == 1) && r.coin(); // strong update only where it is true
    } else if (k < 82) { // range store with constant bounds
      s = mk(Op::ARR_STORE_RANGE);
      long lo = (long)r.range(0, a.n - 1), hi = (long)r.range(lo, a.n - 1);
      s.v = {a.name};
      s.e = {LinExp(mpz_class(lo * a.esz)), LinExp(mpz_class(hi * a.esz)), arr_value(a)};
      s.n = {mpz_class(a.esz)};
    } else if (k < 88 && a.esz == 1 && ints_wr.size() >= 2) { // symbolic range [i, j]
      s = mk(Op::ARR_STORE_RANGE);
      LinExp lo = arr_index(a, pre);
      std::vector<Stmt> pre2;
      LinExp hi = arr_index(a, pre2);
      for (auto &x : pre2)
        pre.push_back(x);
      if (!lo.is_const() && !hi.is_const() && (!lo.is_var() || !hi.is_var()))
        return;
      Stmt ord = mk(Op::ASSUME); // lo <= hi
      ord.c.kind = LinCst::LEQ;
      ord.c.e = lo;
      for (auto &t : hi.terms)
        ord.c.e.add_term(t.first, -t.second);
      ord.c.e.cst -= hi.cst;
      pre.push_back(ord);
      s.v = {a.name};
      s.e = {lo, hi, arr_value(a)};
      s.n = {mpz_class(a.esz)};
    } else if (k < 95) { // array copy
      if (!c.arr_assign)
        return;
      std::vector<const ArrInfo *> cand;
      for (auto &o : arrays)
        if (o.name != a.name && o.is_bool == a.is_bool && o.esz == a.esz && o.n == a.n)
          cand.push_back(&o);
      if (cand.empty())
        return;
      s = mk(Op::ARR_ASSIGN);
      s.v = {a.name, cand[r.below(cand.size())]->name};
    } else { // re-initialisation
      s = arr_init(a);
    }
    for (auto &x : pre)
      b.stmts.push_back(x);
    b.stmts.push_back(s);
  }
  // for (i = 0; i < n; i++) { A[esz*i] := v  |  x := A[esz*i] } on the template shape
  void add_array_template() {
    if (arrays.empty() || f.blocks.size() < 4 || ints_wr.empty())
      return;
    auto &b0 = f.blocks[0];
    auto &b1 = f.blocks[1];
    if (b0.succs.size() != 1 || b0.succs[0] != "b1" || b1.succs.size() != 2)
      return;
    const ArrInfo &a = arrays[r.below(arrays.size())];
    std::string i = iwr();
    Stmt init = mk(Op::ASSIGN);
    init.v = {i};
    init.e = {LinExp(mpz_class(0))};
    b0.stmts.push_back(init);
    for (size_t s = 0; s < 2; s++) {
      Block *g = f.block(b1.succs[s]);
      if (!g)
        continue;
      Stmt as = mk(Op::ASSUME);
      as.c.e = LinExp::var(i);
      as.c.e.cst = -a.n; // i - n < 0
      as.c.kind = LinCst::LT;
      if (s == 1)
        as.c = negate(as.c);
      if (g->label[0] == 'g')
        g->stmts.clear();
      g->stmts.insert(g->stmts.begin(), as);
    }
    Block *body = f.block("b2");
    if (!body)
      return;
    // the body must not disturb the counter: drop statements writing i
    std::vector<Stmt> keep;
    for (auto &st : body->stmts)
      if (st.v.empty() || st.v[0] != i || st.op == Op::ASSERT || st.op == Op::ASSUME)
        keep.push_back(st);
    body->stmts = keep;
    Stmt st;
    if (r.chance(2, 3)) {
      st = mk(Op::ARR_STORE);
      st.v = {a.name};
      LinExp val = (a.is_bool || a.esz != 4) ? arr_value(a) : (r.coin() ? LinExp::var(i) : arr_value(a));
      st.e = {LinExp::var(i, mpz_class(a.esz)), val};
      st.n = {mpz_class(a.esz)};
    } else {
      st = mk(Op::ARR_LOAD);
      std::string lhs;
      if (a.is_bool) {
        if (bools_wr.empty())
          return;
        lhs = bools_wr[r.below(bools_wr.size())];
      } else {
        std::vector<std::string> c2;
        for (auto &x : (a.esz == 8 ? wide : a.esz == 1 ? narrow : ints_wr))
          if (x != i)
            c2.push_back(x);
        if (c2.empty())
          return;
        lhs = c2[r.below(c2.size())];
      }
      st.v = {lhs, a.name};
      st.e = {LinExp::var(i, mpz_class(a.esz))};
      st.n = {mpz_class(a.esz)};
    }
    body->stmts.push_back(st);
    Stmt inc = mk(Op::BINOP);
    inc.k = "add";
    inc.v = {i, i};
    inc.n = {mpz_class(1)};
    body->stmts.push_back(inc);
  }

  // ---- REGION profile ------------------------------------------------------
  void declare_regions() {
    int ni = (int)r.range(1, 2);
    for (int i = 0; i < ni; i++)
      regions.push_back({"RI" + std::to_string(i), Ty::RGN_INT});
    if (!bools_rd.empty() && r.chance(1, 3))
      regions.push_back({"RB0", Ty::RGN_BOOL});
    bool refrgn = r.chance(1, 2);
    for (auto &g : regions) {
      VarDecl d;
      d.name = g.name;
      d.ty = g.ty;
      d.width = g.ty == Ty::RGN_BOOL ? 1 : 32;
      f.vars.push_back(d);
    }
    int np = (int)r.range(2, 4);
    for (int i = 0; i < np; i++) {
      RefInfo ri;
      ri.name = "p" + std::to_string(i);
      // most references live in RI0 so that aliasing inside one region is frequent
      ri.home = r.chance(3, 5) ? 0 : (int)r.below(regions.size());
      refs.push_back(ri);
    }
    if (refrgn) {
      regions.push_back({"RR0", Ty::RGN_REF});
      VarDecl d;
      d.name = "RR0";
      d.ty = Ty::RGN_REF;
      f.vars.push_back(d);
      int nq = (int)r.range(1, 2);
      for (int i = 0; i < nq; i++)
        refs.push_back({"q" + std::to_string(i), (int)regions.size() - 1});
    }
    for (auto &ri : refs) {
      VarDecl d;
      d.name = ri.name;
      d.ty = Ty::REF;
      f.vars.push_back(d);
    }
  }
  int next_site() { return local_site++ % 60; }
  const RefInfo &any_ref() { return refs[r.below(refs.size())]; }
  // a reference whose home region has the given type (nullptr if none)
  const RefInfo *ref_with(Ty ty, const std::string &not_name = "") {
    std::vector<const RefInfo *> c2;
    for (auto &x : refs)
      if (regions[x.home].ty == ty && x.name != not_name)
        c2.push_back(&x);
    return c2.empty() ? nullptr : c2[r.below(c2.size())];
  }
  const RefInfo *ref_in(int home, const std::string &not_name = "") {
    std::vector<const RefInfo *> c2;
    for (auto &x : refs)
      if (x.home == home && x.name != not_name)
        c2.push_back(&x);
    return c2.empty() ? nullptr : c2[r.below(c2.size())];
  }
  Stmt mk_make_ref(const RefInfo &p) {
    Stmt s = mk(Op::MAKE_REF);
    static const long sizes[] = {4, 8, 16, 16};
    s.v = {p.name, regions[p.home].name};
    s.n = {mpz_class(sizes[r.below(4)]), mpz_class(next_site())};
    return s;
  }
  // store_to_ref(p, home(p), value of the right type); false if no value is available
  bool mk_store(const RefInfo &p, Stmt &s) {
    s = mk(Op::STORE_REF);
    const RgnInfo &g = regions[p.home];
    s.v = {p.name, g.name};
    if (g.ty == Ty::RGN_INT) {
      if (r.coin())
        s.v.push_back(ird());
      else
        s.n = {constant()};
    } else if (g.ty == Ty::RGN_BOOL) {
      if (r.coin() && !bools_rd.empty())
        s.v.push_back(bools_rd[r.below(bools_rd.size())]);
      else
        s.n = {mpz_class(r.coin() ? 1 : 0)};
    } else {
      // a region of references stores references into RI0-like regions only
      const RefInfo *t = ref_with(Ty::RGN_INT);
      if (!t)
        return false;
      s.v.push_back(t->name);
    }
    return true;
  }
  bool mk_load(const RefInfo &p, Stmt &s, std::string &lhs) {
    s = mk(Op::LOAD_REF);
    const RgnInfo &g = regions[p.home];
    if (g.ty == Ty::RGN_INT)
      lhs = iwr();
    else if (g.ty == Ty::RGN_BOOL) {
      if (bools_wr.empty())
        return false;
      lhs = bools_wr[r.below(bools_wr.size())];
    } else {
      const RefInfo *t = ref_with(Ty::RGN_INT);
      if (!t)
        return false;
      lhs = t->name;
    }
    s.v = {lhs, p.name, g.name};
    return true;
  }
  Stmt mk_ref_cst(Op op, const std::string &boolvar = "") {
    Stmt s = mk(op);
    unsigned k = (unsigned)r.below(100);
    const RefInfo &a = any_ref();
    if (!boolvar.empty())
      s.v.push_back(boolvar);
    if (k < 35) {
      s.k = "null";
      s.v.push_back(a.name);
    } else if (k < 70) {
      s.k = "notnull";
      s.v.push_back(a.name);
    } else {
      const RefInfo *b2 = ref_in(a.home, "");
      static const char *ks[] = {"eq", "neq", "eq", "neq", "lt", "le", "gt", "ge"};
      s.k = ks[r.below(8)];
      s.v.push_back(a.name);
      s.v.push_back(b2 ? b2->name : a.name);
      static const long offs[] = {0, 0, 0, 4, 8, -4};
      s.n = {mpz_class(offs[r.below(6)])};
    }
    return s;
  }
  void gen_region_stmts(Block &b) {
    if (refs.empty())
      return;
    unsigned k = (unsigned)r.below(100);
    const RefInfo &p = any_ref();
    Stmt s;
    if (r.chance(1, 12)) { // tag analysis: add_tag(rgn, ref, TAG)
      Stmt t = mk(Op::INTRINSIC);
      t.k = "add_tag";
      t.v = {regions[p.home].name, p.name};
      t.n = {mpz_class((long)r.range(1, 4))};
      b.stmts.push_back(t);
      return;
    }
    if (k < 14) { // allocation, usually initialised right away
      b.stmts.push_back(mk_make_ref(p));
      if (r.chance(3, 4) && mk_store(p, s))
        b.stmts.push_back(s);
      return;
    }
    if (k < 36) { // store
      if (r.chance(1, 3)) {
        Stmt g = mk(Op::ASSUME_REF);
        g.k = "notnull";
        g.v = {p.name};
        b.stmts.push_back(g);
      }
      if (mk_store(p, s))
        b.stmts.push_back(s);
      return;
    }
    if (k < 60) { // load (+ an assertion about the loaded value)
      std::string lhs;
      if (!mk_load(p, s, lhs))
        return;
      b.stmts.push_back(s);
      if (regions[p.home].ty == Ty::RGN_INT && r.chance(1, 3)) {
        Stmt as = mk(Op::ASSERT);
        as.c = cond();
        as.c.e.terms.clear();
        as.c.e.add_term(lhs, r.coin() ? 1 : -1);
        as.id = (*assert_id)++;
        b.stmts.push_back(as);
      }
      return;
    }
    if (k < 72) { // gep: same region (pointer arithmetic) or into another region (a field)
      const RefInfo *dst = r.chance(2, 3) ? ref_in(p.home, p.name) : &any_ref();
      if (!dst)
        dst = &p;
      if (regions[dst->home].ty != regions[p.home].ty && r.coin())
        return;
      s = mk(Op::GEP_REF);
      s.v = {dst->name, regions[dst->home].name, p.name, regions[p.home].name};
      static const long offs[] = {0, 4, 4, 8, 12, -4};
      if (r.chance(1, 6) && !ints_rd.empty())
        s.e = {LinExp::var(ird())};
      else
        s.e = {LinExp(mpz_class(offs[r.below(6)]))};
      b.stmts.push_back(s);
      return;
    }
    if (k < 80) { // select_ref, possibly with null
      if (bools_rd.empty())
        return;
      const RefInfo *a1 = ref_in(p.home), *a2 = ref_in(p.home);
      if (!a1 || !a2)
        return;
      s = mk(Op::SELECT_REF);
      const std::string &rg = regions[p.home].name;
      unsigned w = (unsigned)r.below(3);
      s.v = {p.name, rg, bools_rd[r.below(bools_rd.size())], w == 1 ? "" : a1->name, rg,
             w == 2 ? "" : a2->name, rg};
      b.stmts.push_back(s);
      return;
    }
    if (k < 88) {
      b.stmts.push_back(mk_ref_cst(Op::ASSUME_REF));
      return;
    }
    if (k < 92) {
      Stmt as = mk_ref_cst(Op::ASSERT_REF);
      as.id = (*assert_id)++;
      b.stmts.push_back(as);
      return;
    }
    if (k < 95) {
      if (bools_wr.empty())
        return;
      b.stmts.push_back(mk_ref_cst(Op::BASSIGN_REFCST, bools_wr[r.below(bools_wr.size())]));
      return;
    }
    if (k < 97) { // free
      s = mk(Op::REMOVE_REF);
      s.v = {regions[p.home].name, p.name};
      b.stmts.push_back(s);
      return;
    }
    { // region copy between regions of the same type
      std::vector<int> c2;
      for (size_t i = 0; i < regions.size(); i++)
        if ((int)i != p.home && regions[i].ty == regions[p.home].ty)
          c2.push_back((int)i);
      if (c2.empty())
        return;
      s = mk(Op::RGN_COPY);
      if (r.coin())
        s.v = {regions[p.home].name, regions[c2[r.below(c2.size())]].name};
      else
        s.v = {regions[c2[r.below(c2.size())]].name, regions[p.home].name};
      b.stmts.push_back(s);
    }
  }
  void add_region_prologue() {
    std::vector<Stmt> pro;
    for (auto &g : regions) {
      Stmt s = mk(Op::RGN_INIT);
      s.v = {g.name};
      pro.push_back(s);
    }
    // most references start allocated and initialised (the others start null)
    // lazy mode (one function in four): most references start null, so that regions
    // start without references and are populated on some paths only (reference
    // counters 0 | [1,+oo] at joins)
    bool lazy = r.chance(1, 4);
    for (auto &p : refs) {
      if (r.chance(lazy ? 3 : 1, 5))
        continue;
      pro.push_back(mk_make_ref(p));
      Stmt st;
      if (r.chance(4, 5) && mk_store(p, st)) {
        // a store of a reference needs its operand defined: only after it
        if (regions[p.home].ty != Ty::RGN_REF)
          pro.push_back(st);
        else
          pro.push_back(st);
      }
    }
    f.blocks[0].stmts.insert(f.blocks[0].stmts.begin(), pro.begin(), pro.end());
  }

  void fill_block(Block &b, int nst) {
    for (int i = 0; i < nst; i++) {
      Stmt s;
      if (c.profile == GenConfig::REGION && r.chance(1, 2)) {
        gen_region_stmts(b);
        continue;
      }
      if (c.profile == GenConfig::ARRAY && r.chance(2, 5)) {
        gen_array_stmts(b);
        continue;
      }
      if (callees && !callee_idx.empty() && r.chance(1, 4)) {
        if (gen_call(s)) {
          b.stmts.push_back(s);
          // a burst of calls to the same function with other constant arguments:
          // several calling contexts of one callee (summary reuse, context joining)
          if (r.chance(1, 3)) {
            size_t nout = (size_t)s.n.at(0).get_ui();
            int more = (int)r.range(1, 2);
            for (int k = 0; k < more; k++) {
              for (size_t a = nout; a < s.v.size(); a++) {
                const VarDecl *d = f.var(s.v[a]);
                if (!d || d->ty != Ty::INT ||
                    std::find(ints_wr.begin(), ints_wr.end(), s.v[a]) == ints_wr.end())
                  continue;
                Stmt as = mk(Op::ASSIGN);
                as.v = {s.v[a]};
                as.e = {LinExp(mpz_class((long)r.range(-2, 3)))};
                b.stmts.push_back(as);
              }
              b.stmts.push_back(s);
            }
          }
        }
        continue;
      }
      if (gen_stmt(s))
        b.stmts.push_back(s);
    }
  }

  void build_shape() {
    int N = (int)r.range(1, std::max(1, c.max_blocks));
    bool tmpl = c.templates && N >= 4 && r.chance(1, 3);
    f.blocks.resize(N);
    for (int i = 0; i < N; i++)
      f.blocks[i].label = "b" + std::to_string(i);
    if (!c.no_exit)
      f.exit = f.blocks[N - 1].label;
    auto addedge = [&](int i, int j) {
      auto &s = f.blocks[i].succs;
      if (std::find(s.begin(), s.end(), f.blocks[j].label) == s.end())
        s.push_back(f.blocks[j].label);
    };
    if (tmpl) {
      // b0 -> b1(head) -> {b2(body) -> b1, b3...}; the rest forward
      addedge(0, 1);
      addedge(1, 2);
      addedge(2, 1);
      addedge(1, 3);
      for (int i = 3; i + 1 < N; i++)
        addedge(i, i + 1);
    } else {
      for (int i = 0; i + 1 < N; i++) {
        if (r.chance(4, 5))
          addedge(i, i + 1);
        else
          addedge(i, (int)r.range(i + 1, N - 1));
        int extra = r.chance(2, 5) ? 1 : 0;
        if (extra && r.chance(1, 5))
          extra = 2;
        for (int e = 0; e < extra; e++) {
          bool back = c.loops && r.chance(2, 5);
          int j;
          if (back) {
            int lo = c.entry_loop ? 0 : 1;
            if (lo > i)
              continue;
            j = (int)r.range(lo, i);
            if (j == i && !c.self_loops)
              continue;
          } else
            j = (int)r.range(i + 1, N - 1);
          addedge(i, j);
        }
      }
      if (c.irreducible && N >= 4 && r.chance(1, 2)) {
        int i = (int)r.range(0, N - 2), j = (int)r.range(1, N - 1);
        if (c.self_loops || i != j)
          addedge(i, j);
      }
      if (c.no_exit && N >= 1 && c.loops)
        addedge(N - 1, (int)r.range(0, N - 1));
    }
    // dead ends: a block that cannot reach exit
    if (c.dead_ends && N >= 3 && r.chance(1, 2)) {
      int k = (int)r.range(1, N - 2);
      Block d;
      d.label = "d" + std::to_string(k);
      f.blocks[k].succs.push_back(d.label);
      if (r.chance(1, 3))
        d.succs.push_back(d.label); // spinning dead end
      f.blocks.push_back(d);
    }
    if (c.unreachable_blocks && r.chance(1, 2)) {
      Block u;
      u.label = "u0";
      u.succs.push_back(f.blocks[r.below(N)].label);
      f.blocks.push_back(u);
    }
  }

  void add_guards() {
    if (!c.guards)
      return;
    size_t nb = f.blocks.size();
    for (size_t i = 0; i < nb; i++) {
      if (f.blocks[i].succs.size() < 2 || !r.chance(4, 5))
        continue;
      bool usebool = !bools_rd.empty() && r.chance(1, 5);
      LinCst k = cond();
      std::string bvar = usebool ? bools_rd[r.below(bools_rd.size())] : "";
      std::vector<std::string> ns;
      for (size_t s = 0; s < f.blocks[i].succs.size(); s++) {
        if (s >= 2) {
          ns.push_back(f.blocks[i].succs[s]);
          continue;
        }
        Block g;
        g.label = "g" + f.blocks[i].label + "_" + std::to_string(s);
        Stmt a;
        if (usebool) {
          a.op = Op::BASSUME;
          a.v = {bvar};
          a.f = (s == 1);
        } else {
          a.op = Op::ASSUME;
          a.c = (s == 0) ? k : negate(k);
          // sometimes overlapping guards (real non-determinism)
          if (s == 1 && r.chance(1, 8))
            a.c = cond();
        }
        g.stmts.push_back(a);
        g.succs.push_back(f.blocks[i].succs[s]);
        ns.push_back(g.label);
        f.blocks.push_back(g);
      }
      f.blocks[i].succs = ns;
    }
  }

  void add_template_code() {
    // counting loop on b0..b3 if the shape is the template
    if (f.blocks.size() < 4)
      return;
    if (f.blocks[0].succs.size() != 1 || f.blocks[0].succs[0] != "b1" ||
        f.blocks[1].succs.size() != 2)
      return;
    if (ints_wr.size() >= 2 && r.chance(1, 3) && f.block("b2")) {
      // alternating relational loop: y := c; x := y + d; loop { x := y + 1 | x := y - 1 |
      // y := x + 1 | y := x - 1 }. |x - y| <= 1 is stable while the bounds of x and y grow
      // alternately: a relational widening whose left operand is (re)closed never
      // stabilises on this shape.
      std::string x = ints_wr[0], y = ints_wr[1];
      if (r.coin())
        std::swap(x, y);
      Stmt iy = mk(Op::ASSIGN);
      iy.v = {y};
      iy.e = {LinExp(mpz_class((long)r.range(-2, 2)))};
      Stmt ix = mk(Op::ASSIGN);
      ix.v = {x};
      ix.e = {LinExp::var(y)};
      ix.e[0].cst = mpz_class((long)r.range(-1, 1));
      f.blocks[0].stmts.push_back(iy);
      f.blocks[0].stmts.push_back(ix);
      std::vector<std::string> back = f.block("b2")->succs;
      int nalt = (int)r.range(2, 4);
      std::vector<std::string> alts;
      for (int k = 0; k < nalt; k++) {
        Block nb;
        nb.label = "balt" + std::to_string(k);
        Stmt u = mk(Op::ASSIGN);
        bool upd_x = (k % 2 == 0);
        u.v = {upd_x ? x : y};
        u.e = {LinExp::var(upd_x ? y : x)};
        u.e[0].cst = mpz_class(k < 2 ? 1 : -1);
        nb.stmts.push_back(u);
        nb.succs = back;
        alts.push_back(nb.label);
        f.blocks.push_back(nb);
      }
      f.block("b2")->succs = alts; // (pointer re-fetched: push_back may have reallocated)
      return;
    }
    auto &b0 = f.blocks[0];
    auto &b1 = f.blocks[1];
    std::string i = iwr();
    Stmt init = mk(Op::ASSIGN);
    init.v = {i};
    init.e = {LinExp(mpz_class((long)r.range(-2, 2)))};
    b0.stmts.push_back(init);
    mpz_class bound = mpz_class((long)r.range(1, 12));
    // guards on the two successors of b1
    for (size_t s = 0; s < 2; s++) {
      Block *g = f.block(b1.succs[s]);
      if (!g)
        continue;
      Stmt a = mk(Op::ASSUME);
      LinExp e = LinExp::var(i);
      e.cst = -bound;
      a.c.e = e; // i - bound
      a.c.kind = LinCst::LT;
      if (s == 1)
        a.c = negate(a.c);
      if (g->label[0] == 'g')
        g->stmts.clear();
      g->stmts.insert(g->stmts.begin(), a);
    }
    Block *body = f.block("b2");
    if (body) {
      Stmt inc = mk(Op::BINOP);
      inc.k = "add";
      inc.v = {i, i};
      inc.n = {mpz_class((long)r.range(1, 3))};
      body->stmts.push_back(inc);
    }
  }

  void place_asserts() {
    int n = (int)r.range(0, c.n_asserts);
    for (int k = 0; k < n; k++) {
      Block &b = f.blocks[r.below(f.blocks.size())];
      Stmt a = gen_assert();
      // sometimes true by construction: right after an assume of the same condition
      if (a.op == Op::ASSERT && r.chance(1, 4)) {
        Stmt as = mk(Op::ASSUME);
        as.c = a.c;
        size_t pos = r.below(b.stmts.size() + 1);
        b.stmts.insert(b.stmts.begin() + pos, a);
        b.stmts.insert(b.stmts.begin() + pos, as);
        continue;
      }
      size_t pos = r.below(b.stmts.size() + 1);
      // keep leading assume guards first
      if (!b.stmts.empty() && b.label[0] == 'g' && pos == 0)
        pos = 1;
      b.stmts.insert(b.stmts.begin() + pos, a);
    }
  }

  // A terminating (mutual) recursion: a new entry block branches to a base case
  // (p <= 0), to a recursive case (p > 0: call some function of the program,
  // possibly this one, with p - 1) and to the generated body.
  void add_recursion_template() {
    if (!callees || callee_idx.empty() || f.exit.empty())
      return;
    std::string p, o;
    for (auto &i : f.inputs) {
      const VarDecl *d = f.var(i);
      if (d && d->ty == Ty::INT && d->width == 32) {
        p = i;
        break;
      }
    }
    for (auto &x : f.outputs) {
      const VarDecl *d = f.var(x);
      if (d && d->ty == Ty::INT && d->width == 32) {
        o = x;
        break;
      }
    }
    if (p.empty() || o.empty() || ints_wr.empty())
      return;
    Stmt call;
    bool got = false;
    if (r.coin()) {
      // direct recursion
      std::vector<int> saved = callee_idx;
      callee_idx.clear();
      for (int j : saved)
        if ((*callees)[j].name == f.name)
          callee_idx.push_back(j);
      got = !callee_idx.empty() && gen_call(call);
      callee_idx = saved;
    }
    if (!got && !gen_call(call))
      return;
    // the first integer argument of the call becomes t = p - 1
    std::string t;
    for (auto &x : ints_wr)
      if (x != o) {
        t = x;
        break;
      }
    if (t.empty())
      return;
    size_t nout = (size_t)call.n.at(0).get_ui();
    bool patched = false;
    for (size_t a = nout; a < call.v.size() && !patched; a++) {
      const VarDecl *d = f.var(call.v[a]);
      if (d && d->ty == Ty::INT && d->width == 32) {
        call.v[a] = t;
        patched = true;
      }
    }
    if (!patched)
      return;
    for (size_t a = 0; a < nout; a++)
      if (call.v[a] == t)
        return; // the argument must not be an output of the same call
    Block base, rec, ent;
    ent.label = "r0";
    base.label = "rbase";
    rec.label = "rrec";
    // one recursion in three is unguarded (if (*) return ...; else return g(p +- 1)):
    // the chain of entry values of the recursive function is unbounded
    bool guarded_rec = !r.chance(1, 3);
    bool upwards = !guarded_rec && r.coin();
    Stmt g1 = mk(Op::ASSUME);
    g1.c.kind = LinCst::LEQ;
    g1.c.e = LinExp::var(p); // p <= 0
    if (guarded_rec)
      base.stmts.push_back(g1);
    Stmt a1 = mk(Op::ASSIGN);
    a1.v = {o};
    a1.e = {r.coin() ? LinExp(constant()) : LinExp::var(p)};
    base.stmts.push_back(a1);
    base.succs = {f.exit};
    Stmt g2 = mk(Op::ASSUME);
    g2.c.kind = LinCst::LEQ;
    g2.c.e = LinExp::var(p, -1); // 1 - p <= 0
    g2.c.e.cst = 1;
    if (guarded_rec)
      rec.stmts.push_back(g2);
    Stmt dec = mk(Op::BINOP);
    dec.k = upwards ? "add" : "sub";
    dec.v = {t, p};
    dec.n = {mpz_class(1)};
    rec.stmts.push_back(dec);
    rec.stmts.push_back(call);
    // the result depends on the result of the recursive call
    std::string res;
    for (size_t a = 0; a < nout; a++) {
      const VarDecl *d = f.var(call.v[a]);
      if (d && d->ty == Ty::INT && d->width == 32)
        res = call.v[a];
    }
    if (!res.empty()) {
      Stmt acc = mk(Op::BINOP);
      acc.k = "add";
      acc.v = {o, res};
      if (r.coin())
        acc.v.push_back(p);
      else
        acc.n = {mpz_class((long)r.range(0, 3))};
      rec.stmts.push_back(acc);
    }
    rec.succs = {f.exit};
    ent.succs = {base.label, rec.label};
    if (r.chance(1, 3))
      ent.succs.push_back(f.blocks[0].label);
    f.blocks.insert(f.blocks.begin(), ent);
    f.blocks.push_back(base);
    f.blocks.push_back(rec);
  }

  void generate_body() {
    build_shape();
    bool tmpl_shape = f.blocks.size() >= 4 && f.blocks[1].succs.size() == 2 &&
                      f.blocks[1].succs[0] == "b2" && f.blocks[2].succs.size() == 1 &&
                      f.blocks[2].succs[0] == "b1";
    size_t nmain = f.blocks.size();
    for (size_t i = 0; i < nmain; i++)
      fill_block(f.blocks[i], (int)r.range(0, c.max_stmts));
    add_guards();
    if (tmpl_shape && c.templates) {
      if (c.profile == GenConfig::ARRAY && r.chance(2, 3))
        add_array_template();
      else
        add_template_code();
    }
    place_asserts();
    if (c.recursion && f.name != "main" && r.chance(1, 2))
      add_recursion_template();
    if (c.profile == GenConfig::REGION)
      add_region_prologue();
    if (c.profile == GenConfig::ARRAY) {
      // every array starts initialised (reading a never-initialised array is outside the model)
      std::vector<Stmt> inits;
      for (auto &a : arrays)
        inits.push_back(arr_init(a));
      f.blocks[0].stmts.insert(f.blocks[0].stmts.begin(), inits.begin(), inits.end());
    }
  }
};

} // namespace

Program generate_program(Rng &r, const GenConfig &c) {
  Program p;
  int assert_id = 0, havoc_id = 0;
  if (!c.inter) {
    FGen g(r, c, &assert_id, &havoc_id);
    int n_in = c.func_decl ? (int)r.range(0, 2) : 0;
    int n_out = c.func_decl ? (int)r.range(0, 2) : 0;
    if (c.func_decl) {
      g.f.name = "f";
    }
    g.declare_vars("f", n_in, c.func_decl && c.nbools ? (int)r.range(0, 1) : 0, n_out,
                   c.func_decl && c.nbools ? (int)r.range(0, 1) : 0, true);
    if (c.func_decl && g.f.inputs.empty() && g.f.outputs.empty())
      g.f.name = ""; // crab treats an empty declaration as "no declaration"
    if (c.profile == GenConfig::ARRAY)
      g.declare_arrays();
    if (c.profile == GenConfig::REGION)
      g.declare_regions();
    g.generate_body();
    p.funcs.push_back(g.f);
    return p;
  }
  // inter-procedural: main + k functions. Signatures first, bodies second.
  // Every function of a call graph gets an exit block.
  GenConfig ci = c;
  ci.no_exit = false;
  int k = (int)r.range(1, std::max(1, c.max_funcs));
  bool shared = r.coin() && !getenv("SIM_NO_SHARED"); // shared variable names between caller and callee
  std::vector<FGen *> gens;
  std::vector<Function> sigs(k + 1);
  for (int i = 0; i <= k; i++) {
    FGen *g = new FGen(r, ci, &assert_id, &havoc_id);
    std::string name = i == 0 ? "main" : "f" + std::to_string(i);
    g->f.name = name;
    if (i == 0)
      g->declare_vars(name, 0, 0, 0, 0, shared);
    else
      g->declare_vars(name, (int)r.range(0, 3), c.nbools ? (int)r.range(0, 1) : 0,
                      (int)r.range(1, 2), c.nbools ? (int)r.range(0, 1) : 0, shared);
    // every function used in an inter-procedural analysis needs an exit block
    gens.push_back(g);
    sigs[i] = g->f;
  }
  for (int i = 0; i <= k; i++) {
    FGen *g = gens[i];
    g->callees = &sigs;
    for (int j = 1; j <= k; j++)
      if (c.recursion ? true : j > i)
        g->callee_idx.push_back(j);
    g->generate_body();
    p.funcs.push_back(g->f);
  }
  for (auto g : gens)
    delete g;
  return p;
}

bool simir_wellformed(const Program &p, std::string *why) {
  auto bad = [&](const std::string &m) {
    if (why)
      *why = m;
    return false;
  };
  if (p.funcs.empty())
    return bad("no function");
  for (auto &f : p.funcs) {
    if (f.blocks.empty())
      return bad("no blocks");
    std::set<std::string> labels;
    for (auto &b : f.blocks)
      if (!labels.insert(b.label).second)
        return bad("duplicate label");
    if (!f.exit.empty() && !labels.count(f.exit))
      return bad("exit missing");
    for (auto &b : f.blocks) {
      for (auto &s : b.succs)
        if (!labels.count(s))
          return bad("succ missing");
      for (auto &st : b.stmts) {
        for (auto &v : st.v)
          if (!v.empty() && !f.var(v))
            return bad("undeclared var " + v);
        for (auto &e : st.e)
          for (auto &t : e.terms)
            if (!f.var(t.first))
              return bad("undeclared var " + t.first);
        for (auto &t : st.c.e.terms)
          if (!f.var(t.first))
            return bad("undeclared var " + t.first);
        if (st.op == Op::CALL && !p.func(st.k))
          return bad("callee missing");
      }
    }
    for (auto &i : f.inputs)
      if (!f.var(i))
        return bad("input undeclared");
    for (auto &o : f.outputs)
      if (!f.var(o))
        return bad("output undeclared");
  }
  return true;
}

} // namespace sim
