// Domain registry and the AbsVal instantiation for crab's type-erased wrapper.
#include "absval_impl.hpp"

namespace sim {

std::vector<DomainInfo> &domain_registry() {
  static std::vector<DomainInfo> reg;
  return reg;
}

const DomainInfo *find_domain(const std::string &name) {
  for (auto &d : domain_registry())
    if (d.name == name)
      return &d;
  return nullptr;
}

DomainRegistrar::DomainRegistrar(const DomainInfo &d) {
  auto &reg = domain_registry();
  // keep the registry sorted by name: link order must not matter for replay
  auto it = reg.begin();
  while (it != reg.end() && it->name < d.name)
    ++it;
  reg.insert(it, d);
}

AbsVal::P wrap_dom(const dom_t &d) { return AbsVal::P(new AbsValImpl<dom_t>(d)); }

const dom_t &unwrap_dom(const AbsVal &v) { return AbsValImpl<dom_t>::get(v); }

} // namespace sim
