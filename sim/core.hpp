// Core of the harness: cases, outcomes, per-property engines, statistics.
// A Case is everything one simulated run needs (program or history, domain,
// analysis parameters, knobs, execution seeds, fault plan) in explicit form:
// it is produced from a seed by gen_case(), checked by check_case(),
// serialised as the replay file, and shrunk by the minimiser.
#pragma once
#include "gen.hpp"
#include "util.hpp"
#include <functional>
#include <map>

namespace sim {

struct Stats {
  std::map<std::string, long> c; // counters
  std::map<std::string, uint64_t> h; // distinct-hash sets are merged by the driver
  std::vector<uint64_t> path_hashes, result_hashes, case_hashes;
  void inc(const std::string &k, long n = 1) { c[k] += n; }
  Json to_json() const {
    Json j = Json::obj();
    Json cc = Json::obj();
    for (auto &kv : c)
      cc.set(kv.first, kv.second);
    j.set("c", cc);
    auto arr = [](const std::vector<uint64_t> &v) {
      Json a = Json::arr();
      for (auto x : v)
        a.push((long long)(x & 0x3fffffffffffffffULL)); // keep it in int64 range
      return a;
    };
    j.set("paths", arr(path_hashes));
    j.set("results", arr(result_hashes));
    j.set("cases", arr(case_hashes));
    return j;
  }
};

struct Violation {
  std::string property;
  std::string monitor; // which oracle fired, e.g. "pre_invariant", "safe_verdict"
  std::string item;    // sub-item (in_gamma item, verdict kind, ...): part of the violation class
  std::string where;   // function:block[:stmt]
  std::string detail;
  std::string cls() const { return property + "/" + monitor + "/" + item; }
  Json to_json() const {
    Json j = Json::obj();
    j.set("property", property);
    j.set("monitor", monitor);
    j.set("item", item);
    j.set("where", where);
    j.set("detail", detail);
    return j;
  }
};

struct Case {
  std::string property;
  std::string domain;
  std::string domain2;  // second domain where an analysis takes two (C10)
  Json params = Json::obj(); // analysis parameters, knobs, fault plan
  Program prog;
  Json hist;            // operation history for sim_hist cases
  uint64_t exec_seed = 0;
  int n_execs = 0;
  uint64_t origin_seed = 0; // the run seed this case was generated from (0: hand written / minimised)
  Json to_json() const {
    Json j = Json::obj();
    j.set("property", property);
    j.set("domain", domain);
    if (!domain2.empty())
      j.set("domain2", domain2);
    j.set("params", params);
    j.set("exec_seed", (long long)exec_seed);
    j.set("n_execs", n_execs);
    j.set("origin_seed", (long long)origin_seed);
    if (!prog.funcs.empty())
      j.set("prog", prog.to_json());
    if (hist.kind != Json::NUL)
      j.set("hist", hist);
    return j;
  }
  static Case from_json(const Json &j) {
    Case c;
    c.property = j.at("property").as_str();
    c.domain = j.at("domain").as_str();
    c.domain2 = j.at("domain2").as_str();
    c.params = j.at("params");
    if (c.params.kind != Json::OBJ)
      c.params = Json::obj();
    c.exec_seed = (uint64_t)j.at("exec_seed").as_int();
    c.n_execs = (int)j.at("n_execs").as_int();
    c.origin_seed = (uint64_t)j.at("origin_seed").as_int();
    if (j.has("prog"))
      c.prog = Program::from_json(j.at("prog"));
    if (j.has("hist"))
      c.hist = j.at("hist");
    return c;
  }
  long pint(const std::string &k, long def = 0) const {
    return params.has(k) ? (long)params.at(k).as_int(def) : def;
  }
  bool pbool(const std::string &k, bool def = false) const {
    return params.has(k) ? params.at(k).as_bool(def) : def;
  }
  std::string pstr(const std::string &k, const std::string &def = "") const {
    return params.has(k) ? params.at(k).as_str(def) : def;
  }
};

struct Outcome {
  bool violated = false;
  Violation v;
  std::string refusal;   // crab refused the case (CRAB_ERROR): not a verdict
  bool budget = false;   // analysis hit the tick budget
  uint64_t hash = 0;     // hash of everything observable (determinism gate)
  std::string trace;     // human readable event trace of the violating execution
};

struct Tier {
  bool thorough = false;
  int execs = 40;
};

// --- per-property engines (each in its own file). gen draws everything
// from the rng; check is a pure function of the case.
struct PropertyEngine {
  std::string id;
  std::string engine; // sim_prog / sim_hist
  std::function<Case(Rng &, const Tier &, const std::vector<std::string> &domains)> gen;
  std::function<Outcome(const Case &, Stats &)> check;
  // domains this property runs on in the given tier
  std::function<std::vector<std::string>(const Tier &)> domains;
  // candidate simplifications specific to the property (optional)
};
std::vector<PropertyEngine> &property_registry();
const PropertyEngine *find_property(const std::string &id);
struct PropertyRegistrar {
  PropertyRegistrar(const PropertyEngine &e) { property_registry().push_back(e); }
};

// apply the knob settings of a case to crab's global parameter block; must
// be called before any abstract value of the case exists
void apply_knobs(const Case &c);
// draw a random knob setting (F6) relevant for the domain
void random_knobs(Rng &r, const std::string &domain, Json &params);

// minimise a violating case, keeping the violation class
Case minimise(const PropertyEngine &pe, const Case &c, const Violation &v, int budget,
              int *reruns = nullptr);

std::vector<std::string> domains_with(unsigned must_have, unsigned must_not_have, bool core_only);

// Input-level neutralisers of known findings (DESIGN.md 3.7): rewrite a program so
// that it no longer exercises a known-defective call site of crab.
//   break_recursion        : call sites that close a call-graph cycle havoc their outputs
//   drop_dead_end_asserts  : assertions in blocks that cannot reach the exit are removed
//   unique_names           : every variable is renamed apart per function
//   replace:<op>[.<kind>]  : statements of that kind become a havoc of their lhs
void rewrite_program(Program &p, const std::string &what);

} // namespace sim
