// Small self-contained utilities of the simulator: seeded PRNG, hashing,
// a minimal JSON value (parser + printer). No crab headers here.
#pragma once
#include <cstdint>
#include <cstdio>
#include <cstdlib>
#include <map>
#include <memory>
#include <sstream>
#include <stdexcept>
#include <string>
#include <vector>

namespace sim {

// ---------------------------------------------------------------------------
// splitmix64: every random decision of a run is drawn from one of these,
// seeded from VERIF_SEED and the run index. Never used in logging paths.
// ---------------------------------------------------------------------------
inline uint64_t mix64(uint64_t z) {
  z += 0x9e3779b97f4a7c15ULL;
  z = (z ^ (z >> 30)) * 0xbf58476d1ce4e5b9ULL;
  z = (z ^ (z >> 27)) * 0x94d049bb133111ebULL;
  return z ^ (z >> 31);
}

inline uint64_t hash_str(const std::string &s, uint64_t h = 1469598103934665603ULL) {
  for (unsigned char c : s) {
    h ^= c;
    h *= 1099511628211ULL;
  }
  return mix64(h);
}

inline uint64_t hash_combine(uint64_t a, uint64_t b) {
  return mix64(a ^ (b + 0x9e3779b97f4a7c15ULL + (a << 6) + (a >> 2)));
}

class Rng {
  uint64_t s;

public:
  explicit Rng(uint64_t seed = 0) : s(seed) {}
  uint64_t next() {
    s += 0x9e3779b97f4a7c15ULL;
    uint64_t z = s;
    z = (z ^ (z >> 30)) * 0xbf58476d1ce4e5b9ULL;
    z = (z ^ (z >> 27)) * 0x94d049bb133111ebULL;
    return z ^ (z >> 31);
  }
  // uniform in [0,n)
  uint64_t below(uint64_t n) { return n == 0 ? 0 : next() % n; }
  // uniform in [lo,hi]
  int64_t range(int64_t lo, int64_t hi) {
    if (hi <= lo)
      return lo;
    return lo + (int64_t)below((uint64_t)(hi - lo) + 1);
  }
  bool chance(unsigned num, unsigned den) { return below(den) < num; }
  bool coin() { return next() & 1; }
  template <class T> const T &pick(const std::vector<T> &v) {
    return v[below(v.size())];
  }
  Rng fork(uint64_t salt) { return Rng(hash_combine(next(), salt)); }
  uint64_t state() const { return s; }
};

// ---------------------------------------------------------------------------
// JSON
// ---------------------------------------------------------------------------
class Json {
public:
  enum Kind { NUL, BOOL, INT, STR, ARR, OBJ, DBL };
  Kind kind = NUL;
  bool b = false;
  int64_t i = 0;
  double d = 0;
  std::string s;
  std::vector<Json> a;
  std::vector<std::pair<std::string, Json>> o; // insertion ordered

  Json() {}
  Json(bool v) : kind(BOOL), b(v) {}
  Json(int v) : kind(INT), i(v) {}
  Json(unsigned v) : kind(INT), i(v) {}
  Json(long v) : kind(INT), i(v) {}
  Json(long long v) : kind(INT), i(v) {}
  Json(unsigned long v) : kind(INT), i((int64_t)v) {}
  Json(unsigned long long v) : kind(INT), i((int64_t)v) {}
  Json(double v) : kind(DBL), d(v) {}
  Json(const char *v) : kind(STR), s(v) {}
  Json(const std::string &v) : kind(STR), s(v) {}
  static Json arr() {
    Json j;
    j.kind = ARR;
    return j;
  }
  static Json obj() {
    Json j;
    j.kind = OBJ;
    return j;
  }
  Json &push(const Json &v) {
    if (kind != ARR) {
      kind = ARR;
      a.clear();
    }
    a.push_back(v);
    return *this;
  }
  Json &set(const std::string &k, const Json &v) {
    if (kind != OBJ) {
      kind = OBJ;
      o.clear();
    }
    for (auto &kv : o)
      if (kv.first == k) {
        kv.second = v;
        return *this;
      }
    o.push_back({k, v});
    return *this;
  }
  bool has(const std::string &k) const {
    for (auto &kv : o)
      if (kv.first == k)
        return true;
    return false;
  }
  const Json &at(const std::string &k) const {
    for (auto &kv : o)
      if (kv.first == k)
        return kv.second;
    static Json nul;
    return nul;
  }
  Json &ref(const std::string &k) {
    for (auto &kv : o)
      if (kv.first == k)
        return kv.second;
    if (kind != OBJ)
      kind = OBJ;
    o.push_back({k, Json()});
    return o.back().second;
  }
  const Json &operator[](size_t idx) const { return a.at(idx); }
  size_t size() const { return kind == ARR ? a.size() : o.size(); }
  int64_t as_int(int64_t def = 0) const {
    if (kind == INT)
      return i;
    if (kind == DBL)
      return (int64_t)d;
    if (kind == BOOL)
      return b;
    if (kind == STR)
      return atoll(s.c_str());
    return def;
  }
  bool as_bool(bool def = false) const {
    if (kind == BOOL)
      return b;
    if (kind == INT)
      return i != 0;
    return def;
  }
  std::string as_str(const std::string &def = "") const {
    if (kind == STR)
      return s;
    if (kind == INT)
      return std::to_string(i);
    return def;
  }

  static void esc(std::ostream &os, const std::string &s) {
    os << '"';
    for (unsigned char c : s) {
      switch (c) {
      case '"':
        os << "\\\"";
        break;
      case '\\':
        os << "\\\\";
        break;
      case '\n':
        os << "\\n";
        break;
      case '\t':
        os << "\\t";
        break;
      case '\r':
        os << "\\r";
        break;
      default:
        if (c < 0x20) {
          char buf[8];
          snprintf(buf, sizeof buf, "\\u%04x", c);
          os << buf;
        } else
          os << c;
      }
    }
    os << '"';
  }
  void write(std::ostream &os, int indent = -1, int lvl = 0) const {
    auto nl = [&](int l) {
      if (indent >= 0) {
        os << '\n';
        for (int k = 0; k < l * indent; k++)
          os << ' ';
      }
    };
    switch (kind) {
    case NUL:
      os << "null";
      break;
    case BOOL:
      os << (b ? "true" : "false");
      break;
    case INT:
      os << i;
      break;
    case DBL: {
      char buf[64];
      snprintf(buf, sizeof buf, "%.6g", d);
      os << buf;
      break;
    }
    case STR:
      esc(os, s);
      break;
    case ARR: {
      os << '[';
      bool simple = true;
      for (auto &x : a)
        if (x.kind == ARR || x.kind == OBJ)
          simple = false;
      for (size_t k = 0; k < a.size(); k++) {
        if (k)
          os << ',';
        if (!simple)
          nl(lvl + 1);
        else if (k && indent >= 0)
          os << ' ';
        a[k].write(os, indent, lvl + 1);
      }
      if (!simple && !a.empty())
        nl(lvl);
      os << ']';
      break;
    }
    case OBJ: {
      os << '{';
      for (size_t k = 0; k < o.size(); k++) {
        if (k)
          os << ',';
        nl(lvl + 1);
        esc(os, o[k].first);
        os << (indent >= 0 ? ": " : ":");
        o[k].second.write(os, indent, lvl + 1);
      }
      if (!o.empty())
        nl(lvl);
      os << '}';
      break;
    }
    }
  }
  std::string dump(int indent = -1) const {
    std::ostringstream os;
    write(os, indent);
    return os.str();
  }

  // --- parser
  struct P {
    const std::string &t;
    size_t p = 0;
    P(const std::string &s) : t(s) {}
    void ws() {
      while (p < t.size() && (t[p] == ' ' || t[p] == '\n' || t[p] == '\t' || t[p] == '\r'))
        p++;
    }
    [[noreturn]] void fail(const char *m) {
      throw std::runtime_error(std::string("json: ") + m + " at " + std::to_string(p));
    }
    Json val() {
      ws();
      if (p >= t.size())
        fail("eof");
      char c = t[p];
      if (c == '{') {
        p++;
        Json j = Json::obj();
        ws();
        if (t[p] == '}') {
          p++;
          return j;
        }
        for (;;) {
          ws();
          if (t[p] != '"')
            fail("key");
          std::string k = str();
          ws();
          if (t[p] != ':')
            fail("colon");
          p++;
          j.o.push_back({k, val()});
          ws();
          if (t[p] == ',') {
            p++;
            continue;
          }
          if (t[p] == '}') {
            p++;
            return j;
          }
          fail("obj");
        }
      }
      if (c == '[') {
        p++;
        Json j = Json::arr();
        ws();
        if (t[p] == ']') {
          p++;
          return j;
        }
        for (;;) {
          j.a.push_back(val());
          ws();
          if (t[p] == ',') {
            p++;
            continue;
          }
          if (t[p] == ']') {
            p++;
            return j;
          }
          fail("arr");
        }
      }
      if (c == '"')
        return Json(str());
      if (t.compare(p, 4, "true") == 0) {
        p += 4;
        return Json(true);
      }
      if (t.compare(p, 5, "false") == 0) {
        p += 5;
        return Json(false);
      }
      if (t.compare(p, 4, "null") == 0) {
        p += 4;
        return Json();
      }
      size_t q = p;
      bool isd = false;
      if (t[q] == '-')
        q++;
      while (q < t.size() && (isdigit((unsigned char)t[q]) || t[q] == '.' || t[q] == 'e' ||
                              t[q] == 'E' || t[q] == '+' || t[q] == '-')) {
        if (t[q] == '.' || t[q] == 'e' || t[q] == 'E')
          isd = true;
        q++;
      }
      if (q == p)
        fail("value");
      std::string num = t.substr(p, q - p);
      p = q;
      if (isd)
        return Json(atof(num.c_str()));
      return Json((long long)strtoll(num.c_str(), nullptr, 10));
    }
    std::string str() {
      std::string r;
      p++;
      while (p < t.size() && t[p] != '"') {
        if (t[p] == '\\') {
          p++;
          char c = t[p];
          if (c == 'n')
            r += '\n';
          else if (c == 't')
            r += '\t';
          else if (c == 'r')
            r += '\r';
          else if (c == 'u') {
            unsigned v = strtoul(t.substr(p + 1, 4).c_str(), nullptr, 16);
            r += (char)v;
            p += 4;
          } else
            r += c;
          p++;
        } else
          r += t[p++];
      }
      p++;
      return r;
    }
  };
  static Json parse(const std::string &text) {
    P p(text);
    return p.val();
  }
};

inline bool read_file(const std::string &path, std::string &out) {
  FILE *f = fopen(path.c_str(), "rb");
  if (!f)
    return false;
  char buf[65536];
  size_t n;
  out.clear();
  while ((n = fread(buf, 1, sizeof buf, f)) > 0)
    out.append(buf, n);
  fclose(f);
  return true;
}

inline bool write_file(const std::string &path, const std::string &data) {
  std::string tmp = path + ".tmp";
  FILE *f = fopen(tmp.c_str(), "wb");
  if (!f)
    return false;
  fwrite(data.data(), 1, data.size(), f);
  fclose(f);
  return rename(tmp.c_str(), path.c_str()) == 0;
}

} // namespace sim
