# Build of the simulation harness against the CURRENT /repo working tree.
# -DNDEBUG: as in the pinned build of /repo (RelWithDebInfo), crab's internal asserts are off.
# Every object depends (through -MMD) on the crab headers it includes, so any
# edit under /repo rebuilds exactly what it touches.
REPO ?= /repo
B    ?= build
CXX  ?= g++
CXXFLAGS ?= -std=c++14 -O1 -g -w -DNDEBUG -DCRAB_VERIF_SIM -I$(REPO)/include -Isim/inc
LDLIBS = -lgmpxx -lgmp
# optional sanitizer variant (not used by the registered checks):
#   make B=build_san SAN="-fsanitize=address,undefined -fno-sanitize=signed-integer-overflow -fno-omit-frame-pointer"
SAN ?=
CXXFLAGS += $(SAN)

LIB_SRCS := $(wildcard $(REPO)/lib/*.cpp)
LIB_OBJS := $(patsubst $(REPO)/lib/%.cpp,$(B)/lib/%.o,$(LIB_SRCS))
SIM_SRCS := $(wildcard sim/*.cpp)
SIM_OBJS := $(patsubst sim/%.cpp,$(B)/sim/%.o,$(SIM_SRCS))
DOM_SRCS := $(wildcard sim/domains/*.cpp)
DOM_OBJS := $(patsubst sim/domains/%.cpp,$(B)/dom/%.o,$(DOM_SRCS))
OBJS := $(LIB_OBJS) $(SIM_OBJS) $(DOM_OBJS)

all: $(B)/crabsim

# crab's library sources go into a static archive that is linked AFTER the
# harness objects, exactly like the shipped configuration (libCrab.a): a few
# functions of crab are defined both inline in a header and out of line in lib/
# (e.g. trim_interval for dis_interval), and with an archive the linker keeps the
# header's definition like it does for crab's own tests and clients.
$(B)/libCrab.a: $(LIB_OBJS)
	rm -f $@
	ar rcs $@ $(LIB_OBJS)

$(B)/crabsim: $(SIM_OBJS) $(DOM_OBJS) $(B)/libCrab.a
	$(CXX) $(SAN) -o $@ $(SIM_OBJS) $(DOM_OBJS) $(B)/libCrab.a $(LDLIBS)

$(B)/lib/%.o: $(REPO)/lib/%.cpp
	@mkdir -p $(dir $@)
	$(CXX) $(CXXFLAGS) -MMD -MP -c $< -o $@

$(B)/sim/%.o: sim/%.cpp
	@mkdir -p $(dir $@)
	$(CXX) $(CXXFLAGS) -MMD -MP -c $< -o $@

$(B)/dom/%.o: sim/domains/%.cpp
	@mkdir -p $(dir $@)
	$(CXX) $(CXXFLAGS) -MMD -MP -c $< -o $@

clean:
	rm -rf $(B)

-include $(OBJS:.o=.d)
.PHONY: all clean
